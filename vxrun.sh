#!/bin/sh
# dev helper: assemble + verus
cd /verif && ./build/assemble/debug/vx-assemble assemble --src ${SRC:-/repo/entrait_macros/src} --contracts contracts --prelude specs/prelude.rs --out build/unit-all || exit 2
. build/vflags.sh
verus build/unit-all/root.rs $VX_EXT --multiple-errors 5 --triggers-mode silent "$@" 2>&1 | grep -v -E "^warning: this lint|^warning: unused" 
