//! Trusted specification layer (module `crate::vx` of every unit).
//!
//! Everything in this file is ASSUMED, not proved: an abstract model of token streams,
//! a trait-level contract for `quote::ToTokens`, and `assume_specification`s for the
//! syn / quote / proc-macro2 / core functions that the verified functions of
//! entrait_macros call.  Each assumed fact has a concrete counterpart in the conformance
//! tests of the replay harness (replay/src/conformance.rs), which build the real values
//! and compare; see DESIGN.md section 2.2.
#![allow(unused_imports, dead_code, non_snake_case)]
extern crate alloc;
use proc_macro2::{Span, TokenStream};
use quote::ToTokens;
use vstd::prelude::*;
use vstd::std_specs::iter::*;

macro_rules! ext_opaque {
    ($($name:ident => $ty:ty),* $(,)?) => { verus! { $(
        #[verifier::external_type_specification]
        #[verifier::external_body]
        pub struct $name($ty);
    )* } }
}

macro_rules! syn_punct {
    ($($ex:ident, $t:ident, $n:literal, $s:literal);* $(;)?) => { verus! { $(
        #[verifier::external_type_specification]
        #[verifier::external_body]
        pub struct $ex(syn::token::$t);
        impl ToTokensSpecImpl for syn::token::$t { open spec fn toks(&self) -> Seq<Tok> { pu($s@) } }
        #[verifier::allow(undeclared_external_trait)]
        pub assume_specification<S: syn::__private::IntoSpans<[Span; $n]>>[ syn::token::$t ](span: S) -> (r: syn::token::$t);
        pub assume_specification[ <syn::token::$t as core::default::Default>::default ]() -> (r: syn::token::$t);
    )* } }
}

macro_rules! syn_keyword {
    ($($ex:ident, $t:ident, $s:literal);* $(;)?) => { verus! { $(
        #[verifier::external_type_specification]
        #[verifier::external_body]
        pub struct $ex(syn::token::$t);
        impl ToTokensSpecImpl for syn::token::$t { open spec fn toks(&self) -> Seq<Tok> { id($s@) } }
        #[verifier::allow(undeclared_external_trait)]
        pub assume_specification<S: syn::__private::IntoSpans<Span>>[ syn::token::$t ](span: S) -> (r: syn::token::$t);
        pub assume_specification[ <syn::token::$t as core::default::Default>::default ]() -> (r: syn::token::$t);
    )* } }
}

macro_rules! syn_delim {
    ($($ex:ident, $t:ident, $d:expr);* $(;)?) => { verus! { $(
        #[verifier::external_type_specification]
        #[verifier::external_body]
        pub struct $ex(syn::token::$t);
        #[verifier::allow(undeclared_external_trait)]
        pub assume_specification<S: syn::__private::IntoSpans<proc_macro2::extra::DelimSpan>>[ syn::token::$t ](span: S) -> (r: syn::token::$t);
        pub assume_specification[ <syn::token::$t as core::default::Default>::default ]() -> (r: syn::token::$t);
        /// `surround(stream, f)` appends one group holding exactly what `f` appends to an empty stream.
        pub assume_specification<F: FnOnce(&mut TokenStream)>[ syn::token::$t::surround ](this: &syn::token::$t, tokens: &mut TokenStream, f: F)
            requires forall|m: &mut TokenStream| f.requires((m,)),
            ensures exists|m: &mut TokenStream| #[trigger] f.ensures((m,), ()) && tv(*m) == Seq::<Tok>::empty()
                && tv(*final(tokens)) == tv(*old(tokens)) + grp($d, tv(*final(m)));
    )* } }
}

macro_rules! syn_opaque_node {
    ($($ex:ident, $t:ty, $f:ident);* $(;)?) => { verus! { $(
        #[verifier::external_type_specification]
        #[verifier::external_body]
        pub struct $ex($t);
        pub uninterp spec fn $f(x: &$t) -> Seq<Tok>;
        impl ToTokensSpecImpl for $t { open spec fn toks(&self) -> Seq<Tok> { $f(self) } }
    )* } }
}

macro_rules! syn_node_toks {
    ($($t:ty, $f:ident);* $(;)?) => { verus! { $(
        pub uninterp spec fn $f(x: &$t) -> Seq<Tok>;
        impl ToTokensSpecImpl for $t { open spec fn toks(&self) -> Seq<Tok> { $f(self) } }
    )* } }
}

verus! {

// ------------------------------------------------------------------ token model
pub enum Delim { Paren, Bracket, Brace, NoDelim }

/// Abstract token.  Spans are deliberately absent: span changes are never a violation.
/// `Opaque` never occurs in specs of crate-owned emitters; user syntax is uninterpreted
/// sequences (`tk(&user_node)`).
pub enum Tok {
    Ident(Seq<char>),
    Punct(Seq<char>),
    Lifetime(Seq<char>),
    Lit(Seq<char>),
    Group(Delim, Seq<Tok>),
}

pub open spec fn id(s: Seq<char>) -> Seq<Tok> { seq![Tok::Ident(s)] }
pub open spec fn pu(s: Seq<char>) -> Seq<Tok> { seq![Tok::Punct(s)] }
pub open spec fn lt(s: Seq<char>) -> Seq<Tok> { seq![Tok::Lifetime(s)] }
pub open spec fn lit(s: Seq<char>) -> Seq<Tok> { seq![Tok::Lit(s)] }
pub open spec fn grp(d: Delim, s: Seq<Tok>) -> Seq<Tok> { seq![Tok::Group(d, s)] }
pub open spec fn paren(s: Seq<Tok>) -> Seq<Tok> { grp(Delim::Paren, s) }
pub open spec fn bracket(s: Seq<Tok>) -> Seq<Tok> { grp(Delim::Bracket, s) }
pub open spec fn brace(s: Seq<Tok>) -> Seq<Tok> { grp(Delim::Brace, s) }
pub open spec fn nil() -> Seq<Tok> { Seq::<Tok>::empty() }

/// `:: a :: b :: c` for a list of path segment names (absolute path).
pub open spec fn abs_path2(a: Seq<Tok>, b: Seq<Tok>) -> Seq<Tok> { pu("::"@) + a + pu("::"@) + b }
pub open spec fn abs_path3(a: Seq<Tok>, b: Seq<Tok>, c: Seq<Tok>) -> Seq<Tok> { pu("::"@) + a + pu("::"@) + b + pu("::"@) + c }


ext_opaque!{
    ExTokenStream => proc_macro2::TokenStream,
    ExIdent => proc_macro2::Ident,
    ExSpan => proc_macro2::Span,
    ExDelimSpan => proc_macro2::extra::DelimSpan,
    ExLiteral => proc_macro2::Literal,
    ExError => syn::Error,
}
verus! {
#[verifier::external_type_specification]
#[verifier::external_body]
pub struct ExParseBuffer<'a>(syn::parse::ParseBuffer<'a>);
}

/// The abstract content of a token stream.
pub uninterp spec fn tv(s: TokenStream) -> Seq<Tok>;

// ------------------------------------------------------------------ quote::ToTokens contract
#[verifier::external_trait_specification]
#[verifier::external_trait_extension(ToTokensSpec via ToTokensSpecImpl)]
pub trait ExToTokens {
    type ExternalTraitSpecificationFor: quote::ToTokens;
    spec fn toks(&self) -> Seq<Tok>;
    fn to_tokens(&self, tokens: &mut TokenStream)
        ensures tv(*final(tokens)) == tv(*old(tokens)) + self.toks();
}

/// `x.toks()` on a concrete type is ambiguous between ToTokensSpec and ToTokensSpecImpl;
/// specs call this helper instead.
pub open spec fn tk<T: ToTokens + ?Sized>(x: &T) -> Seq<Tok> { x.toks() }

impl<T: ToTokens + ?Sized> ToTokensSpecImpl for &T {
    open spec fn toks(&self) -> Seq<Tok> { (**self).toks() }
}
impl<T: ToTokens + ?Sized> ToTokensSpecImpl for Box<T> {
    open spec fn toks(&self) -> Seq<Tok> { (**self).toks() }
}
impl<T: ToTokens> ToTokensSpecImpl for Option<T> {
    open spec fn toks(&self) -> Seq<Tok> {
        match self { Some(x) => x.toks(), None => Seq::<Tok>::empty() }
    }
}
impl ToTokensSpecImpl for TokenStream {
    open spec fn toks(&self) -> Seq<Tok> { tv(*self) }
}

pub uninterp spec fn ident_str(i: &proc_macro2::Ident) -> Seq<char>;
impl ToTokensSpecImpl for proc_macro2::Ident {
    open spec fn toks(&self) -> Seq<Tok> { id(ident_str(self)) }
}
pub assume_specification[ proc_macro2::Ident::new ](s: &str, span: Span) -> (r: proc_macro2::Ident)
    ensures ident_str(&r) == s@;
/// identifiers compare by their text
pub assume_specification[ <proc_macro2::Ident as core::cmp::PartialEq>::eq ](a: &proc_macro2::Ident, b: &proc_macro2::Ident) -> (r: bool)
    ensures r == (ident_str(a) == ident_str(b));
/// `ident == "text"` (the generic `impl<T: AsRef<str>> PartialEq<T> for Ident`) compares the identifier's text
pub uninterp spec fn as_ref_str<T: ?Sized>(t: &T) -> Seq<char>;
#[verifier::allow(undeclared_external_trait)]
pub assume_specification<T: ?Sized + core::convert::AsRef<str>>[ <proc_macro2::Ident as core::cmp::PartialEq<T>>::eq ](a: &proc_macro2::Ident, b: &T) -> (r: bool)
    ensures r == (ident_str(a) == as_ref_str(b));
pub axiom fn axiom_as_ref_str_literal(s: &&'static str)
    ensures #[trigger] as_ref_str::<&'static str>(s) == (*s)@;
pub assume_specification[ proc_macro2::Ident::span ](i: &proc_macro2::Ident) -> Span;
pub assume_specification[ proc_macro2::Span::call_site ]() -> Span;
pub assume_specification[ <proc_macro2::Ident as core::clone::Clone>::clone ](i: &proc_macro2::Ident) -> (r: proc_macro2::Ident)
    ensures r == *i;

pub assume_specification[ proc_macro2::TokenStream::new ]() -> (r: TokenStream)
    ensures tv(r) == Seq::<Tok>::empty();

// ------------------------------------------------------------------ syn tokens
// one-character / multi-character punctuation and keywords: the constructor `Tok(span)`,
// `Default::default()` and the emitted token.

syn_punct!{
    ExComma, Comma, 1, ",";
    ExColon, Colon, 1, ":";
    ExPlus, Plus, 1, "+";
    ExLt, Lt, 1, "<";
    ExGt, Gt, 1, ">";
    ExEq, Eq, 1, "=";
    ExPound, Pound, 1, "#";
    ExDot, Dot, 1, ".";
    ExSemi, Semi, 1, ";";
    ExAnd, And, 1, "&";
    ExQuestion, Question, 1, "?";
    ExPathSep, PathSep, 2, "::";
    ExRArrow, RArrow, 2, "->";
}
syn_keyword!{
    ExWhere, Where, "where";
    ExSelfType, SelfType, "Self";
    ExSelfValue, SelfValue, "self";
    ExAwait, Await, "await";
    ExAsync, Async, "async";
    ExMove, Move, "move";
    ExDyn, Dyn, "dyn";
    ExPub, Pub, "pub";
    ExSuper, Super, "super";
    ExUnsafe, Unsafe, "unsafe";
    ExConst, Const, "const";
    ExFn, Fn, "fn";
    ExMut, Mut, "mut";
    ExImpl, Impl, "impl";
    ExFor, For, "for";
    ExTrait, Trait, "trait";
    ExMod, Mod, "mod";
    ExAuto, Auto, "auto";
    ExRef, Ref, "ref";
    ExIn, In, "in";
}
syn_delim!{
    ExParen, Paren, Delim::Paren;
    ExBracket, Bracket, Delim::Bracket;
    ExBrace, Brace, Delim::Brace;
}

// `_` is an identifier token in proc-macro2
#[verifier::external_type_specification]
#[verifier::external_body]
pub struct ExUnderscore(syn::token::Underscore);
impl ToTokensSpecImpl for syn::token::Underscore { open spec fn toks(&self) -> Seq<Tok> { id("_"@) } }
#[verifier::allow(undeclared_external_trait)]
pub assume_specification<S: syn::__private::IntoSpans<[Span; 1]>>[ syn::token::Underscore ](span: S) -> (r: syn::token::Underscore);

// literals and lifetimes
#[verifier::external_type_specification]
#[verifier::external_body]
pub struct ExLitBool(syn::LitBool);
pub uninterp spec fn litbool_val(b: &syn::LitBool) -> bool;
impl ToTokensSpecImpl for syn::LitBool {
    open spec fn toks(&self) -> Seq<Tok> { if litbool_val(self) { id("true"@) } else { id("false"@) } }
}
pub assume_specification[ syn::LitBool::new ](value: bool, span: Span) -> (r: syn::LitBool)
    ensures litbool_val(&r) == value;

#[verifier::external_type_specification]
#[verifier::external_body]
pub struct ExLifetime(syn::Lifetime);
pub uninterp spec fn lifetime_str(l: &syn::Lifetime) -> Seq<char>;
impl ToTokensSpecImpl for syn::Lifetime {
    open spec fn toks(&self) -> Seq<Tok> { lt(lifetime_str(self)) }
}
pub assume_specification[ syn::Lifetime::new ](symbol: &str, span: Span) -> (r: syn::Lifetime)
    ensures lifetime_str(&r) == symbol@;

// ------------------------------------------------------------------ user syntax: uninterpreted token content

syn_opaque_node!{
    ExAttribute, syn::Attribute, attribute_toks;
    ExTypeParamBound, syn::TypeParamBound, bound_toks;
    ExAbi, syn::Abi, abi_toks;
    ExVariadic, syn::Variadic, variadic_toks;
    ExReturnType, syn::ReturnType, return_type_toks;
    ExExpr, syn::Expr, expr_toks;
}

// ------------------------------------------------------------------ Punctuated
#[verifier::external_type_specification]
#[verifier::external_body]
#[verifier::reject_recursive_types(T)]
#[verifier::reject_recursive_types(P)]
pub struct ExPunctuated<T, P>(syn::punctuated::Punctuated<T, P>);

#[verifier::external_type_specification]
#[verifier::external_body]
#[verifier::reject_recursive_types(T)]
pub struct ExPIter<'a, T: 'a>(syn::punctuated::Iter<'a, T>);

/// The values of a punctuated list, in order.
pub uninterp spec fn pseq<T, P>(p: &syn::punctuated::Punctuated<T, P>) -> Seq<T>;
/// Whether the list ends in a trailing punctuation token.
pub uninterp spec fn ptrailing<T, P>(p: &syn::punctuated::Punctuated<T, P>) -> bool;

pub assume_specification<T, P: core::default::Default>[ syn::punctuated::Punctuated::<T, P>::push ](p: &mut syn::punctuated::Punctuated<T, P>, value: T)
    ensures pseq(final(p)) == pseq(old(p)).push(value);
pub assume_specification<T, P>[ <syn::punctuated::Punctuated<T, P> as core::default::Default>::default ]() -> (r: syn::punctuated::Punctuated<T, P>)
    ensures pseq(&r).len() == 0;
pub assume_specification<T, P>[ syn::punctuated::Punctuated::<T, P>::new ]() -> (r: syn::punctuated::Punctuated<T, P>)
    ensures pseq(&r).len() == 0;

/// tokens of a whole punctuated list `x1 p x2 p ... [p]` (uninterpreted)
pub uninterp spec fn punctuated_toks<T, P>(p: &syn::punctuated::Punctuated<T, P>) -> Seq<Tok>;
impl<T: ToTokens, P: ToTokens> ToTokensSpecImpl for syn::punctuated::Punctuated<T, P> {
    open spec fn toks(&self) -> Seq<Tok> { punctuated_toks(self) }
}
/// A-arith: an in-memory list of non-zero-sized syntax nodes has at most isize::MAX elements
pub axiom fn axiom_punctuated_len<T, P>(p: &syn::punctuated::Punctuated<T, P>)
    ensures #[trigger] pseq(p).len() <= usize::MAX / 2;
pub assume_specification<T, P>[ syn::punctuated::Punctuated::<T, P>::first ](p: &syn::punctuated::Punctuated<T, P>) -> (r: Option<&T>)
    ensures pseq(p).len() == 0 ==> r is None,
            pseq(p).len() > 0 ==> r == Some(&pseq(p)[0]);
/// `insert` panics when `index > len` (syn asserts it); the precondition makes every verified caller prove it cannot
pub assume_specification<T, P: core::default::Default>[ syn::punctuated::Punctuated::<T, P>::insert ](p: &mut syn::punctuated::Punctuated<T, P>, index: usize, value: T)
    requires index <= pseq(old(p)).len(),
    ensures pseq(final(p)) == pseq(old(p)).insert(index as int, value);
/// the returned borrow is the first element; whatever it holds when the borrow ends is the list's new first element
pub assume_specification<T, P>[ syn::punctuated::Punctuated::<T, P>::first_mut ](p: &mut syn::punctuated::Punctuated<T, P>) -> (r: Option<&mut T>)
    ensures pseq(old(p)).len() == 0 ==> r is None && *final(p) == *old(p),
            pseq(old(p)).len() > 0 ==> r is Some && *r->Some_0 == pseq(old(p))[0]
                && pseq(final(p)) == pseq(old(p)).update(0, *final(r->Some_0));
pub assume_specification<T, P>[ syn::punctuated::Punctuated::<T, P>::is_empty ](p: &syn::punctuated::Punctuated<T, P>) -> (r: bool)
    ensures r == (pseq(p).len() == 0);
pub assume_specification<T, P>[ syn::punctuated::Punctuated::<T, P>::len ](p: &syn::punctuated::Punctuated<T, P>) -> (r: usize)
    ensures r == pseq(p).len();

pub assume_specification<'a, T, P>[ <&'a syn::punctuated::Punctuated<T, P> as core::iter::IntoIterator>::into_iter ](p: &'a syn::punctuated::Punctuated<T, P>) -> (r: <&'a syn::punctuated::Punctuated<T, P> as core::iter::IntoIterator>::IntoIter)
    ensures
        r.obeys_prophetic_iter_laws(),
        r.will_return_none(),
        r.remaining().len() == pseq(p).len(),
        forall|i: int| #![auto] 0 <= i < pseq(p).len() ==> *r.remaining()[i] == pseq(p)[i],
        r.decrease() is Some,
;
pub assume_specification<'a, T, P>[ syn::punctuated::Punctuated::<T, P>::iter ](p: &'a syn::punctuated::Punctuated<T, P>) -> (r: syn::punctuated::Iter<'a, T>)
    ensures
        r.obeys_prophetic_iter_laws(),
        r.will_return_none(),
        r.remaining().len() == pseq(p).len(),
        forall|i: int| #![auto] 0 <= i < pseq(p).len() ==> *r.remaining()[i] == pseq(p)[i],
        r.decrease() is Some,
;
#[verifier::external_type_specification]
#[verifier::external_body]
#[verifier::reject_recursive_types(T)]
pub struct ExPIterMut<'a, T: 'a>(syn::punctuated::IterMut<'a, T>);
/// the borrows handed out are the elements, in order; what each holds when its borrow ends is the list's new element
pub assume_specification<'a, T, P>[ syn::punctuated::Punctuated::<T, P>::iter_mut ](p: &'a mut syn::punctuated::Punctuated<T, P>) -> (r: syn::punctuated::IterMut<'a, T>)
    ensures
        r.obeys_prophetic_iter_laws(),
        r.will_return_none(),
        r.remaining().len() == pseq(old(p)).len(),
        forall|i: int| #![auto] 0 <= i < pseq(old(p)).len() ==> *r.remaining()[i] == pseq(old(p))[i],
        pseq(final(p)).len() == pseq(old(p)).len(),
        forall|i: int| #![auto] 0 <= i < pseq(old(p)).len() ==> pseq(final(p))[i] == *final(r.remaining()[i]),
        r.decrease() is Some,
;
pub assume_specification<'a, T>[ <syn::punctuated::IterMut<'a, T> as core::iter::Iterator>::next ](it: &mut syn::punctuated::IterMut<'a, T>) -> (r: Option<<syn::punctuated::IterMut<'a, T> as core::iter::Iterator>::Item>);
#[verifier::external_type_specification]
#[verifier::external_body]
#[verifier::reject_recursive_types(T)]
pub struct ExPIntoIter<T>(syn::punctuated::IntoIter<T>);
pub assume_specification<T, P>[ <syn::punctuated::Punctuated<T, P> as core::iter::IntoIterator>::into_iter ](p: syn::punctuated::Punctuated<T, P>) -> (r: <syn::punctuated::Punctuated<T, P> as core::iter::IntoIterator>::IntoIter)
    ensures
        r.obeys_prophetic_iter_laws(),
        r.will_return_none(),
        r.remaining() == pseq(&p),
        r.decrease() is Some,
;
pub assume_specification<T>[ <syn::punctuated::IntoIter<T> as core::iter::Iterator>::next ](it: &mut syn::punctuated::IntoIter<T>) -> (r: Option<<syn::punctuated::IntoIter<T> as core::iter::Iterator>::Item>);
pub assume_specification<'a, T>[ <syn::punctuated::Iter<'a, T> as core::iter::Iterator>::next ](it: &mut syn::punctuated::Iter<'a, T>) -> (r: Option<<syn::punctuated::Iter<'a, T> as core::iter::Iterator>::Item>);

} // verus!

// ------------------------------------------------------------------ transparent syn syntax nodes
// Declared without external_body, so the real functions can match on / project out of them.
ext_opaque!{
    ExTypeArray => syn::TypeArray, ExTypeBareFn => syn::TypeBareFn,
    ExTypeInfer => syn::TypeInfer, ExTypeMacro => syn::TypeMacro, ExTypeNever => syn::TypeNever,
    ExTypePtr => syn::TypePtr, ExTypeSlice => syn::TypeSlice, ExTypeTraitObject => syn::TypeTraitObject,
    ExTypeTuple => syn::TypeTuple, ExQSelf => syn::QSelf, ExPathArguments => syn::PathArguments,
    ExBoundLifetimes => syn::BoundLifetimes, ExPredicateLifetime => syn::PredicateLifetime,
    ExPatConst => syn::PatConst, ExPatLit => syn::PatLit, ExPatMacro => syn::PatMacro, ExPatOr => syn::PatOr,
    ExPatParen => syn::PatParen, ExPatPath => syn::PatPath, ExPatRange => syn::PatRange, ExPatReference => syn::PatReference,
    ExPatRest => syn::PatRest, ExPatSlice => syn::PatSlice, ExPatStruct => syn::PatStruct, ExPatTuple => syn::PatTuple,
    ExPatTupleStruct => syn::PatTupleStruct, ExPatWild => syn::PatWild,
    ExAt => syn::token::At, ExImplRestriction => syn::ImplRestriction, ExTraitItemConst => syn::TraitItemConst,
    ExTraitItemType => syn::TraitItemType, ExTraitItemMacro => syn::TraitItemMacro, ExBlock => syn::Block,
}
verus! {
#[verifier::external_type_specification] pub struct ExSignature(syn::Signature);
#[verifier::external_type_specification] pub struct ExFnArg(syn::FnArg);
#[verifier::external_type_specification] pub struct ExReceiver(syn::Receiver);
#[verifier::external_type_specification] pub struct ExGenerics(syn::Generics);
#[verifier::external_type_specification] pub struct ExWhereClause(syn::WhereClause);
#[verifier::external_type_specification] pub struct ExGenericParam(syn::GenericParam);
#[verifier::external_type_specification] pub struct ExTypeParam(syn::TypeParam);
#[verifier::external_type_specification] pub struct ExLifetimeParam(syn::LifetimeParam);
#[verifier::external_type_specification] pub struct ExConstParam(syn::ConstParam);
#[verifier::external_type_specification] pub struct ExVisibility(syn::Visibility);
#[verifier::external_type_specification] pub struct ExVisRestricted(syn::VisRestricted);
#[verifier::external_type_specification] pub struct ExType(syn::Type);
#[verifier::external_type_specification] pub struct ExTypeReference(syn::TypeReference);
#[verifier::external_type_specification] pub struct ExTypeParen(syn::TypeParen);
#[verifier::external_type_specification] #[verifier::external_body] pub struct ExTokGroup(syn::token::Group);
#[verifier::external_type_specification] pub struct ExTypeGroup(syn::TypeGroup);
#[verifier::external_type_specification] pub struct ExTypeImplTrait(syn::TypeImplTrait);
#[verifier::external_type_specification] pub struct ExTypePath(syn::TypePath);
#[verifier::external_type_specification] pub struct ExPath(syn::Path);
#[verifier::external_type_specification] pub struct ExPathSegment(syn::PathSegment);
#[verifier::external_type_specification] pub struct ExPredicateType(syn::PredicateType);
#[verifier::external_type_specification] pub struct ExWherePredicate(syn::WherePredicate);
#[verifier::external_type_specification] pub struct ExPat(syn::Pat);
#[verifier::external_type_specification] pub struct ExPatIdent(syn::PatIdent);
#[verifier::external_type_specification] pub struct ExPatType(syn::PatType);
#[verifier::external_type_specification] pub struct ExItemTrait(syn::ItemTrait);
#[verifier::external_type_specification] pub struct ExTraitItem(syn::TraitItem);
#[verifier::external_type_specification] pub struct ExTraitItemFn(syn::TraitItemFn);
}
syn_node_toks!{
    syn::Signature, signature_toks;
    syn::FnArg, fn_arg_toks;
    syn::Receiver, receiver_toks;
    syn::PatType, pat_type_toks;
    syn::Generics, generics_toks;
    syn::GenericParam, generic_param_toks;
    syn::TypeParam, type_param_toks;
    syn::LifetimeParam, lifetime_param_toks;
    syn::ConstParam, const_param_toks;
    syn::Visibility, visibility_toks;
    syn::VisRestricted, vis_restricted_toks;
    syn::PathSegment, path_segment_toks;
    syn::Type, type_toks;
    syn::Path, path_toks;
    syn::Pat, pat_toks;
    syn::WherePredicate, where_predicate_toks;
}
verus! {
/// an inherited (absent) visibility prints nothing; `pub` prints the keyword
pub axiom fn axiom_visibility_toks(v: &syn::Visibility)
    ensures
        (*v is Inherited) ==> #[trigger] visibility_toks(v) == Seq::<Tok>::empty(),
        (*v is Public) ==> visibility_toks(v) == id("pub"@);

// Pair / Pairs
#[verifier::external_type_specification]
#[verifier::reject_recursive_types(T)]
#[verifier::reject_recursive_types(P)]
pub struct ExPair<T, P>(syn::punctuated::Pair<T, P>);
impl<T: ToTokens, P: ToTokens> ToTokensSpecImpl for syn::punctuated::Pair<T, P> {
    open spec fn toks(&self) -> Seq<Tok> {
        match self {
            syn::punctuated::Pair::Punctuated(t, p) => t.toks() + p.toks(),
            syn::punctuated::Pair::End(t) => t.toks(),
        }
    }
}
pub open spec fn pair_value<T, P>(pair: syn::punctuated::Pair<T, P>) -> T {
    match pair {
        syn::punctuated::Pair::Punctuated(t, p) => t,
        syn::punctuated::Pair::End(t) => t,
    }
}
pub assume_specification<T, P>[ syn::punctuated::Pair::<T, P>::value ](pair: &syn::punctuated::Pair<T, P>) -> (r: &T)
    ensures *r == pair_value(*pair);

#[verifier::external_type_specification]
#[verifier::external_body]
#[verifier::reject_recursive_types(T)]
#[verifier::reject_recursive_types(P)]
pub struct ExPairs<'a, T: 'a, P: 'a>(syn::punctuated::Pairs<'a, T, P>);

pub assume_specification<'a, T, P>[ syn::punctuated::Punctuated::<T, P>::pairs ](p: &'a syn::punctuated::Punctuated<T, P>) -> (r: syn::punctuated::Pairs<'a, T, P>)
    ensures
        r.obeys_prophetic_iter_laws(),
        r.will_return_none(),
        r.remaining().len() == pseq(p).len(),
        forall|i: int| 0 <= i < pseq(p).len() ==> *pair_value(#[trigger] r.remaining()[i]) == pseq(p)[i],
        forall|i: int| 0 <= i < pseq(p).len() ==> ((#[trigger] r.remaining()[i] is Punctuated) <==> (i + 1 < pseq(p).len() || ptrailing(p))),
        r.decrease() is Some,
;
pub assume_specification<'a, T, P>[ <syn::punctuated::Pairs<'a, T, P> as core::iter::Iterator>::next ](it: &mut syn::punctuated::Pairs<'a, T, P>) -> (r: Option<<syn::punctuated::Pairs<'a, T, P> as core::iter::Iterator>::Item>);
}

verus! {
// ------------------------------------------------------------------ Clone of syntax nodes is the identity on the abstract value
pub assume_specification[ <syn::Lifetime as core::clone::Clone>::clone ](x: &syn::Lifetime) -> (r: syn::Lifetime) ensures r == *x;
pub assume_specification[ <syn::Type as core::clone::Clone>::clone ](x: &syn::Type) -> (r: syn::Type) ensures r == *x;
pub assume_specification[ <syn::GenericParam as core::clone::Clone>::clone ](x: &syn::GenericParam) -> (r: syn::GenericParam) ensures r == *x;
pub assume_specification[ <syn::WherePredicate as core::clone::Clone>::clone ](x: &syn::WherePredicate) -> (r: syn::WherePredicate) ensures r == *x;
pub assume_specification[ <syn::TypeParamBound as core::clone::Clone>::clone ](x: &syn::TypeParamBound) -> (r: syn::TypeParamBound) ensures r == *x;
pub assume_specification[ <syn::Signature as core::clone::Clone>::clone ](x: &syn::Signature) -> (r: syn::Signature) ensures r == *x;

// ------------------------------------------------------------------ core / alloc
/// the length of a slice is a usize
pub axiom fn axiom_slice_len<T>(s: &[T])
    ensures #[trigger] s@.len() <= usize::MAX;

pub assume_specification<T: ?Sized, A: core::alloc::Allocator>[ <alloc::boxed::Box<T, A> as core::convert::AsRef<T>>::as_ref ](b: &alloc::boxed::Box<T, A>) -> (r: &T)
    ensures r == &**b;

// ------------------------------------------------------------------ errors, spans
pub uninterp spec fn err_msg(e: &syn::Error) -> Seq<char>;
pub uninterp spec fn display_str<T>(x: T) -> Seq<char>;
pub axiom fn axiom_display_str_literal(s: &str)
    ensures #[trigger] display_str::<&str>(s) == s@;
pub assume_specification<T: core::fmt::Display>[ syn::Error::new ](span: Span, message: T) -> (r: syn::Error)
    ensures err_msg(&r) == display_str::<T>(message);

/// N5: `e.span()` is routed through this wrapper because `syn::spanned::Spanned` is sealed.
/// Its body is the original call; no contract mentions spans.
#[verifier::external_body]
#[verifier::allow(undeclared_external_trait)]
pub fn span_of<T: ?Sized + syn::spanned::Spanned>(x: &T) -> Span { x.span() }


// ------------------------------------------------------------------ shared definitions (not assumptions)
pub open spec fn core_marker(name: Seq<char>) -> Seq<Tok> {
    pu("::"@) + id("core"@) + pu("::"@) + id("marker"@) + pu("::"@) + id(name)
}

/// `join(head, sep, xs)`: nothing for an empty list, else head x1 sep x2 sep ... xn
pub open spec fn joined(head: Seq<Tok>, sep: Seq<Tok>, items: Seq<Seq<Tok>>) -> Seq<Tok>
    decreases items.len()
{
    if items.len() == 0 { Seq::<Tok>::empty() }
    else if items.len() == 1 { head + items[0] }
    else { joined(head, sep, items.drop_last()) + sep + items.last() }
}

pub proof fn lemma_joined_push(head: Seq<Tok>, sep: Seq<Tok>, items: Seq<Seq<Tok>>, x: Seq<Tok>)
    ensures joined(head, sep, items.push(x)) == joined(head, sep, items) + (if items.len() == 0 { head } else { sep }) + x
{
    assert(items.push(x).drop_last() =~= items);
    assert(items.push(x).last() == x);
    if items.len() == 0 {
        assert(joined(head, sep, items) =~= Seq::<Tok>::empty());
        assert(items.push(x)[0] == x);
    }
}

/// attributes printed one after the other, in order
pub open spec fn attrs_toks(attrs: Seq<syn::Attribute>) -> Seq<Tok>
    decreases attrs.len()
{
    if attrs.len() == 0 { Seq::<Tok>::empty() } else { attrs_toks(attrs.drop_last()) + tk(&attrs.last()) }
}
pub proof fn lemma_attrs_toks_take(attrs: Seq<syn::Attribute>, i: int)
    requires 0 <= i < attrs.len()
    ensures attrs_toks(attrs.take(i + 1)) == attrs_toks(attrs.take(i)) + tk(&attrs[i])
{
    assert(attrs.take(i + 1).drop_last() =~= attrs.take(i));
    assert(attrs.take(i + 1).last() == attrs[i]);
}

/// `open x1 sep x2 ... close`, nothing at all for an empty list (the Punctuator discipline)
pub open spec fn delimited(open: Seq<Tok>, sep: Seq<Tok>, close: Seq<Tok>, items: Seq<Seq<Tok>>) -> Seq<Tok> {
    if items.len() == 0 { Seq::<Tok>::empty() } else { joined(open, sep, items) + close }
}


} // verus!

verus! {
/// vacuity guard: this lemma MUST be refuted on every run; if the trusted layer were
/// inconsistent it would verify.
pub proof fn vx_canary()
    ensures false,
{
}
} // verus!
