use vstd::prelude::*;
verus! {
fn classify(s: &str) -> (r: u8)
    ensures s@ == "no_deps"@ ==> r == 1, s@ == "debug"@ ==> r == 2, r == 1 ==> s@ == "no_deps"@
{
    proof { reveal_strlit("no_deps"); reveal_strlit("debug"); }
    match s {
        "no_deps" => 1,
        "debug" => 2,
        _ => 0,
    }
}
fn f2(s: String) -> u8 { classify(s.as_str()) }
} // verus!
fn main() {}
