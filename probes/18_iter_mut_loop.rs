// probe 18: `for x in p.iter_mut()` over the real syn::punctuated::Punctuated with an assumed `iter_mut` contract
// (prophetic: what each handed-out borrow holds when it ends is the list's new element).
//   . /verif/build/vflags.sh; verus 18_iter_mut_loop.rs $VX_EXT --triggers-mode silent   -> 2 verified
// negative controls: body `x.ty = 0;` -> invariant not satisfied at end of loop body; `assert(false)` in the body -> fails
use vstd::prelude::*;
use vstd::std_specs::iter::*;
verus! {
pub struct Arg { pub attrs: u8, pub ty: u16 }
#[verifier::external_type_specification]
#[verifier::external_body]
pub struct ExComma(syn::token::Comma);
#[verifier::external_type_specification]
#[verifier::external_body]
#[verifier::reject_recursive_types(T)]
#[verifier::reject_recursive_types(P)]
pub struct ExPunctuated<T, P>(syn::punctuated::Punctuated<T, P>);
#[verifier::external_type_specification]
#[verifier::external_body]
#[verifier::reject_recursive_types(T)]
pub struct ExPIterMut<'a, T: 'a>(syn::punctuated::IterMut<'a, T>);

pub uninterp spec fn pseq<T, P>(p: &syn::punctuated::Punctuated<T, P>) -> Seq<T>;

pub assume_specification<'a, T, P>[ syn::punctuated::Punctuated::<T, P>::iter_mut ](p: &'a mut syn::punctuated::Punctuated<T, P>) -> (r: syn::punctuated::IterMut<'a, T>)
    ensures
        r.obeys_prophetic_iter_laws(),
        r.will_return_none(),
        r.remaining().len() == pseq(old(p)).len(),
        forall|i: int| 0 <= i < pseq(old(p)).len() ==> *r.remaining()[i] == pseq(old(p))[i],
        pseq(final(p)).len() == pseq(old(p)).len(),
        forall|i: int| 0 <= i < pseq(old(p)).len() ==> pseq(final(p))[i] == *final(r.remaining()[i]),
        r.decrease() is Some,
;
pub assume_specification<'a, T>[ <syn::punctuated::IterMut<'a, T> as core::iter::Iterator>::next ](it: &mut syn::punctuated::IterMut<'a, T>) -> (r: Option<<syn::punctuated::IterMut<'a, T> as core::iter::Iterator>::Item>);

fn strip(p: &mut syn::punctuated::Punctuated<Arg, syn::token::Comma>)
    ensures pseq(final(p)).len() == pseq(old(p)).len(),
        forall|i: int| 0 <= i < pseq(old(p)).len() ==> pseq(final(p))[i] == (Arg { attrs: 0, ty: pseq(old(p))[i].ty }),
{
    let ghost p0 = pseq(p);
    for x in it: p.iter_mut()
        invariant it.iter.obeys_prophetic_iter_laws(), it.snapshot@.obeys_prophetic_iter_laws(), it.snapshot@.will_return_none(),
            it.seq().len() == p0.len(),
            forall|i: int| 0 <= i < p0.len() ==> *it.seq()[i] == p0[i],
            forall|i: int| 0 <= i < it.index@ ==> *final(it.seq()[i]) == (Arg { attrs: 0, ty: p0[i].ty }),
    {
        x.attrs = 0;
    }
}
} // verus!
fn main() {}
