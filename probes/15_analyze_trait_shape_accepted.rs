use vstd::prelude::*;
verus! {
macro_rules! ext_opaque {
    ($($name:ident => $ty:ty),* $(,)?) => { $(
        #[verifier::external_type_specification]
        #[verifier::external_body]
        pub struct $name($ty);
    )* }
}
ext_opaque!{
  ExIdent => proc_macro2::Ident, ExSpan => proc_macro2::Span, ExTokenStream => proc_macro2::TokenStream,
  ExAttr => syn::Attribute, ExVis => syn::Visibility, ExUnsafe => syn::token::Unsafe, ExAuto => syn::token::Auto,
  ExRestr => syn::ImplRestriction, ExTrait => syn::token::Trait, ExGenerics => syn::Generics, ExColon => syn::token::Colon,
  ExTPB => syn::TypeParamBound, ExPlus => syn::token::Plus, ExBrace => syn::token::Brace,
  ExTIConst => syn::TraitItemConst, ExTIType => syn::TraitItemType, ExTIMacro => syn::TraitItemMacro,
  ExSig => syn::Signature, ExBlock => syn::Block, ExSemi => syn::token::Semi, ExError => syn::Error,
}
#[verifier::external_type_specification]
#[verifier::external_body]
#[verifier::reject_recursive_types(T)]
#[verifier::reject_recursive_types(P)]
pub struct ExPunctuated<T, P>(syn::punctuated::Punctuated<T, P>);
#[verifier::external_type_specification]
pub struct ExItemTrait(syn::ItemTrait);
#[verifier::external_type_specification]
pub struct ExTraitItem(syn::TraitItem);
#[verifier::external_type_specification]
pub struct ExTraitItemFn(syn::TraitItemFn);

pub struct TraitFn {
    pub attrs: Vec<syn::Attribute>,
    pub sig: syn::Signature,
}

pub open spec fn fns_of(items: Seq<syn::TraitItem>) -> Seq<(Seq<syn::Attribute>, syn::Signature)>
    decreases items.len()
{
    if items.len() == 0 { Seq::empty() } else {
        let rest = fns_of(items.drop_last());
        match items.last() {
            syn::TraitItem::Fn(m) => rest.push((m.attrs@, m.sig)),
            _ => rest,
        }
    }
}

pub fn analyze_trait(item_trait: syn::ItemTrait) -> (r: Result<Vec<TraitFn>, ()>)
    ensures r matches Ok(fns) ==> fns@.len() == fns_of(item_trait.items@).len()
{
    let mut associated_types = vec![];
    let mut fns = vec![];

    for item in item_trait.items.into_iter() {
        match item {
            syn::TraitItem::Fn(method) => {
                fns.push(TraitFn {
                    attrs: method.attrs,
                    sig: method.sig,
                });
            }
            syn::TraitItem::Type(ty) => {
                associated_types.push(ty);
            }
            item => {
                return Err(());
            }
        }
    }
    Ok(fns)
}
} // verus!
fn main() {}
