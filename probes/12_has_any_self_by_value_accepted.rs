use vstd::prelude::*;
use std::ops::Deref;
use syn::spanned::Spanned;
use proc_macro2::Span;

verus! {
macro_rules! ext_opaque {
    ($($name:ident => $ty:ty),* $(,)?) => { $(
        #[verifier::external_type_specification]
        #[verifier::external_body]
        pub struct $name($ty);
    )* }
}
ext_opaque!{
  ExIdent => proc_macro2::Ident, ExSpan => proc_macro2::Span,
  ExConst => syn::token::Const, ExAsync => syn::token::Async, ExUnsafe => syn::token::Unsafe, ExAbi => syn::Abi,
  ExFn => syn::token::Fn, ExGenerics => syn::Generics, ExParen => syn::token::Paren, ExVariadic => syn::Variadic,
  ExReturnType => syn::ReturnType, ExComma => syn::token::Comma,
  ExPatType => syn::PatType, ExError => syn::Error,
}
#[verifier::external_type_specification]
#[verifier::external_body]
#[verifier::reject_recursive_types(T)]
#[verifier::reject_recursive_types(P)]
pub struct ExPunctuated<T, P>(syn::punctuated::Punctuated<T, P>);
#[verifier::external_type_specification]
pub struct ExSignature(syn::Signature);
#[verifier::external_type_specification]
pub struct ExFnArg(syn::FnArg);
#[verifier::external_type_specification]
pub struct ExReceiver(syn::Receiver);
ext_opaque!{ ExAttr => syn::Attribute, ExAnd => syn::token::And, ExLifetime => syn::Lifetime, ExMut => syn::token::Mut, ExSelfValue => syn::token::SelfValue, ExColon => syn::token::Colon, ExType => syn::Type }


pub uninterp spec fn pseq<T, P>(p: &syn::punctuated::Punctuated<T, P>) -> Seq<T>;
pub assume_specification<T, P>[ syn::punctuated::Punctuated::<T, P>::first ](p: &syn::punctuated::Punctuated<T, P>) -> (r: Option<&T>)
    ensures pseq(p).len() == 0 ==> r is None,
            pseq(p).len() > 0 ==> r == Some(&pseq(p)[0]);
pub uninterp spec fn err_msg(e: &syn::Error) -> Seq<char>;
pub assume_specification<T: core::fmt::Display>[ syn::Error::new ](span: Span, message: T) -> (r: syn::Error);
pub assume_specification[ proc_macro2::Ident::span ](i: &proc_macro2::Ident) -> Span;
#[verifier::external_body]
pub fn vx_span<T: ?Sized + syn::spanned::Spanned>(x: &T) -> Span { x.span() }

#[derive(Clone, Copy)]
pub struct InputSig<'s> {
    sig: &'s syn::Signature,
}

impl<'s> InputSig<'s> {
    pub closed spec fn sig_spec(&self) -> &'s syn::Signature { self.sig }
    pub fn new(sig: &'s syn::Signature) -> (r: Self)
        ensures r.sig_spec() == sig
    {
        Self { sig }
    }
}

impl<'s> Deref for InputSig<'s> {
    type Target = &'s syn::Signature;

    fn deref(&self) -> (r: &Self::Target)
        ensures *r == self.sig_spec()
    {
        &self.sig
    }
}

pub enum FnDeps { Generic, Concrete, NoDeps }

fn analyze_fn_deps(input_sig: InputSig<'_>, no_deps: bool) -> (r: syn::Result<FnDeps>)
    ensures !no_deps && pseq(&input_sig.sig_spec().inputs).len() == 0 ==> r is Err,
 !no_deps && pseq(&input_sig.sig_spec().inputs).len() > 0 && pseq(&input_sig.sig_spec().inputs)[0] is Receiver ==> r is Err,
 r is Ok && !no_deps ==> pseq(&input_sig.sig_spec().inputs).len() > 0 && pseq(&input_sig.sig_spec().inputs)[0] is Typed
{
    if no_deps {
        return Ok(FnDeps::NoDeps);
    }

    let first_input =
        match input_sig.inputs.first() {
            Some(fn_arg) => fn_arg,
            None => return Err(syn::Error::new(
                input_sig.ident.span(),
                "Function must have a dependency 'receiver' as its first parameter. Pass `no_deps` to entrait to disable dependency injection.",
            )),
        };

    let pat_type = match first_input {
        syn::FnArg::Typed(pat_type) => pat_type,
        syn::FnArg::Receiver(_) => {
            return Err(syn::Error::new(
                vx_span(first_input),
                "Function cannot have a self receiver",
            ))
        }
    };
    Ok(FnDeps::Generic)
}

#[derive(Clone, Copy)]
pub struct TakesSelfByValue(pub bool);

pub fn has_any_self_by_value<'s>(
    mut signatures: impl Iterator<Item = &'s syn::Signature>,
) -> TakesSelfByValue {
    TakesSelfByValue(signatures.any(|sig| match sig.inputs.first() {
        Some(syn::FnArg::Receiver(receiver)) => receiver.reference.is_none(),
        _ => false,
    }))
}
} // verus!
fn main() {}
