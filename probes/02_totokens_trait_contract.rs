use vstd::prelude::*;
use quote::ToTokens;
use proc_macro2::TokenStream;

verus! {

// abstract token
pub enum Tok {
    Ident(Seq<char>),
    Punct(Seq<char>),
    Lifetime(Seq<char>),
    Group(u8, Seq<Tok>),
    Opaque(int),
}

#[verifier::external_type_specification]
#[verifier::external_body]
pub struct ExTokenStream(proc_macro2::TokenStream);

#[verifier::external_type_specification]
#[verifier::external_body]
pub struct ExIdent(proc_macro2::Ident);

#[verifier::external_type_specification]
#[verifier::external_body]
pub struct ExSpan(proc_macro2::Span);

pub uninterp spec fn ts_view(s: &TokenStream) -> Seq<Tok>;

#[verifier::external_trait_specification]
#[verifier::external_trait_extension(ToTokensSpec via ToTokensSpecImpl)]
pub trait ExToTokens {
    type ExternalTraitSpecificationFor: quote::ToTokens;

    spec fn toks(&self) -> Seq<Tok>;

    fn to_tokens(&self, tokens: &mut TokenStream)
        ensures ts_view(final(tokens)) == ts_view(old(tokens)) + self.toks();
}

pub struct TokenPair<T, U>(pub T, pub U);

impl<T: ToTokens, U: ToTokens> ToTokensSpecImpl for TokenPair<T, U> {
    open spec fn toks(&self) -> Seq<Tok> {
        self.0.toks() + self.1.toks()
    }
}

impl<T: ToTokens, U: ToTokens> quote::ToTokens for TokenPair<T, U> {
    fn to_tokens(&self, stream: &mut TokenStream) {
        self.0.to_tokens(stream);
        self.1.to_tokens(stream);
    }
}

} // verus!
fn main() {}
