use vstd::prelude::*;
use quote::ToTokens;
use proc_macro2::{TokenStream, Span};

verus! {

pub enum Tok { Ident(Seq<char>), Punct(Seq<char>), Lit(Seq<char>), Group(u8, Seq<Tok>) }
pub open spec fn id(s: Seq<char>) -> Seq<Tok> { seq![Tok::Ident(s)] }
pub open spec fn pu(s: Seq<char>) -> Seq<Tok> { seq![Tok::Punct(s)] }
pub open spec fn grp(d: u8, s: Seq<Tok>) -> Seq<Tok> { seq![Tok::Group(d, s)] }

macro_rules! ext_opaque {
    ($($name:ident => $ty:ty),* $(,)?) => { $(
        #[verifier::external_type_specification]
        #[verifier::external_body]
        pub struct $name($ty);
    )* }
}
ext_opaque!{
  ExTokenStream => proc_macro2::TokenStream, ExIdent => proc_macro2::Ident, ExSpan => proc_macro2::Span,
  ExBracket => syn::token::Bracket, ExParen => syn::token::Paren, ExComma => syn::token::Comma,
  ExPathSep => syn::token::PathSep, ExEq => syn::token::Eq, ExUnderscore => syn::token::Underscore,
  ExDelimSpan => proc_macro2::extra::DelimSpan,
}
pub uninterp spec fn tv(s: TokenStream) -> Seq<Tok>;

#[verifier::external_trait_specification]
#[verifier::external_trait_extension(ToTokensSpec via ToTokensSpecImpl)]
pub trait ExToTokens {
    type ExternalTraitSpecificationFor: quote::ToTokens;
    spec fn toks(&self) -> Seq<Tok>;
    fn to_tokens(&self, tokens: &mut TokenStream)
        ensures tv(*final(tokens)) == tv(*old(tokens)) + self.toks();
}
impl<T: ToTokens + ?Sized> ToTokensSpecImpl for &T { open spec fn toks(&self) -> Seq<Tok> { (**self).toks() } }
impl ToTokensSpecImpl for syn::token::Comma { open spec fn toks(&self) -> Seq<Tok> { pu(seq![',']) } }
impl ToTokensSpecImpl for syn::token::PathSep { open spec fn toks(&self) -> Seq<Tok> { pu(seq![':', ':']) } }
impl ToTokensSpecImpl for syn::token::Eq { open spec fn toks(&self) -> Seq<Tok> { pu(seq!['=']) } }
impl ToTokensSpecImpl for syn::token::Underscore { open spec fn toks(&self) -> Seq<Tok> { id(seq!['_']) } }
pub open spec fn tk<T: ToTokens + ?Sized>(x: &T) -> Seq<Tok> { x.toks() }
pub uninterp spec fn ident_str(i: &proc_macro2::Ident) -> Seq<char>;
impl ToTokensSpecImpl for proc_macro2::Ident { open spec fn toks(&self) -> Seq<Tok> { id(ident_str(self)) } }

#[verifier::allow(undeclared_external_trait)]
pub assume_specification<S: syn::__private::IntoSpans<[Span; 1]>>[ syn::token::Comma ](span: S) -> (r: syn::token::Comma);
#[verifier::allow(undeclared_external_trait)]
pub assume_specification<S: syn::__private::IntoSpans<[Span; 2]>>[ syn::token::PathSep ](span: S) -> (r: syn::token::PathSep);
#[verifier::allow(undeclared_external_trait)]
pub assume_specification<S: syn::__private::IntoSpans<[Span; 1]>>[ syn::token::Eq ](span: S) -> (r: syn::token::Eq);
#[verifier::allow(undeclared_external_trait)]
pub assume_specification<S: syn::__private::IntoSpans<[Span; 1]>>[ syn::token::Underscore ](span: S) -> (r: syn::token::Underscore);
#[verifier::allow(undeclared_external_trait)]
pub assume_specification<S: syn::__private::IntoSpans<proc_macro2::extra::DelimSpan>>[ syn::token::Paren ](span: S) -> (r: syn::token::Paren);
#[verifier::allow(undeclared_external_trait)]
pub assume_specification<S: syn::__private::IntoSpans<proc_macro2::extra::DelimSpan>>[ syn::token::Bracket ](span: S) -> (r: syn::token::Bracket);
pub assume_specification[ proc_macro2::Ident::new ](s: &str, span: Span) -> (r: proc_macro2::Ident)
    ensures ident_str(&r) == s@;

pub assume_specification<F: FnOnce(&mut TokenStream)>[ syn::token::Bracket::surround ](this: &syn::token::Bracket, tokens: &mut TokenStream, f: F)
    requires forall|m: &mut TokenStream| f.requires((m,)),
    ensures exists|m: &mut TokenStream| #[trigger] f.ensures((m,), ()) && tv(*m) == Seq::<Tok>::empty()
        && tv(*final(tokens)) == tv(*old(tokens)) + grp(1u8, tv(*final(m)));
pub assume_specification<F: FnOnce(&mut TokenStream)>[ syn::token::Paren::surround ](this: &syn::token::Paren, tokens: &mut TokenStream, f: F)
    requires forall|m: &mut TokenStream| f.requires((m,)),
    ensures exists|m: &mut TokenStream| #[trigger] f.ensures((m,), ()) && tv(*m) == Seq::<Tok>::empty()
        && tv(*final(tokens)) == tv(*old(tokens)) + grp(0u8, tv(*final(m)));

// ---------------- token_util.rs (real text; N1, N2 applied)
pub struct EmptyToken;
impl ToTokensSpecImpl for EmptyToken { open spec fn toks(&self) -> Seq<Tok> { Seq::empty() } }
impl quote::ToTokens for EmptyToken {
    fn to_tokens(&self, _vx0: &mut TokenStream) {}
}

pub struct Punctuator<'s, S, P, E: ToTokens> {
    stream: &'s mut TokenStream,
    position: usize,
    start: S,
    punct: P,
    end: E,
}

pub fn comma_sep(
    stream: &mut TokenStream,
    span: proc_macro2::Span,
) -> (r: Punctuator<EmptyToken, syn::token::Comma, EmptyToken>)
    ensures r.pos() == 0, r.out() == tv(*old(stream)), r.fin() == tv(*final(stream)),
        r.start_toks() == Seq::<Tok>::empty(), r.punct_toks() == pu(seq![',']), r.end_toks_all() == Seq::<Tok>::empty(),
{
    Punctuator::new(stream, EmptyToken, syn::token::Comma(span), EmptyToken)
}

impl<'s, S, P, E> Punctuator<'s, S, P, E>
where
    S: quote::ToTokens,
    P: quote::ToTokens,
    E: quote::ToTokens,
{
    pub closed spec fn pos(&self) -> int { self.position as int }
    pub closed spec fn out(&self) -> Seq<Tok> { tv(*self.stream) }
    #[verifier::prophetic]
    pub closed spec fn fin(&self) -> Seq<Tok> { tv(*final(self.stream)) }
    pub closed spec fn start_toks(&self) -> Seq<Tok> { self.start.toks() }
    pub closed spec fn punct_toks(&self) -> Seq<Tok> { self.punct.toks() }
    pub closed spec fn end_toks_all(&self) -> Seq<Tok> { self.end.toks() }
    pub open spec fn sep_toks(&self) -> Seq<Tok> { if self.pos() == 0 { self.start_toks() } else { self.punct_toks() } }
    #[verifier::prophetic]
    pub open spec fn same_cfg(&self, o: &Self) -> bool {
        self.start_toks() == o.start_toks() && self.punct_toks() == o.punct_toks() && self.end_toks_all() == o.end_toks_all() && self.fin() == o.fin()
    }

    pub fn new(stream: &'s mut TokenStream, start: S, punct: P, end: E) -> (r: Self)
        ensures r.pos() == 0, r.out() == tv(*old(stream)), r.fin() == tv(*final(stream)),
            r.start_toks() == start.toks(), r.punct_toks() == punct.toks(), r.end_toks_all() == end.toks(),
    {
        Self {
            stream,
            position: 0,
            start,
            punct,
            end,
        }
    }

    pub fn push<T: quote::ToTokens>(&mut self, tokens: T)
        requires old(self).pos() < usize::MAX
        ensures final(self).pos() == old(self).pos() + 1,
            final(self).out() == old(self).out() + old(self).sep_toks() + tokens.toks(),
            final(self).same_cfg(old(self)),
    {
        self.sep();
        tokens.to_tokens(self.stream);
    }

    pub fn push_fn<F>(&mut self, f: F)
    where
        F: FnOnce(&mut TokenStream),
        requires old(self).pos() < usize::MAX,
            forall|m: &mut TokenStream| f.requires((m,)),
        ensures final(self).pos() == old(self).pos() + 1,
            final(self).same_cfg(old(self)),
            exists|m: &mut TokenStream| #[trigger] f.ensures((m,), ()) && tv(*m) == old(self).out() + old(self).sep_toks() && tv(*final(m)) == final(self).out(),
    {
        self.sep();
        f(self.stream);
    }

    fn sep(&mut self)
        requires old(self).pos() < usize::MAX
        ensures final(self).pos() == old(self).pos() + 1,
            final(self).out() == old(self).out() + old(self).sep_toks(),
            final(self).same_cfg(old(self)),
    {
        if self.position == 0 {
            self.start.to_tokens(self.stream);
        } else {
            self.punct.to_tokens(self.stream);
        }

        self.position += 1;
    }

    fn vx_drop(&mut self)
        ensures final(self).out() == old(self).out() + (if old(self).pos() > 0 { old(self).end_toks_all() } else { Seq::empty() }),
            final(self).fin() == old(self).fin(),
    {
        if self.position > 0 {
            self.end.to_tokens(self.stream);
        }
    }
}

// ---------------- reduced attributes.rs::UnimockAttrParams (real control structure)
pub struct CrateIdents { pub entrait: syn::Ident, pub __unimock: syn::Ident, pub unimock: syn::Ident }
pub struct MockApiIdent(pub syn::Ident);
pub enum Mode { SingleFn, Module, RawTrait }

pub struct UnimockAttrParams<'s> {
    pub mock_api: Option<&'s MockApiIdent>,
    pub crate_idents: &'s CrateIdents,
    pub fn_idents: &'s [syn::Ident],
    pub mode: &'s Mode,
    pub span: Span,
}

pub open spec fn join_idents(xs: Seq<syn::Ident>) -> Seq<Tok>
    decreases xs.len()
{
    if xs.len() == 0 { Seq::empty() }
    else if xs.len() == 1 { tk(&xs[0]) }
    else { join_idents(xs.drop_last()) + pu(seq![',']) + tk(&xs.last()) }
}

impl UnimockAttrParams<'_> {
    pub open spec fn prefix_toks(&self) -> Seq<Tok> {
        id("prefix"@) + pu(seq!['=']) + pu(seq![':', ':']) + tk(&self.crate_idents.entrait) + pu(seq![':', ':']) + tk(&self.crate_idents.__unimock)
    }
    pub open spec fn unmock_toks(&self) -> Seq<Tok> {
        id("unmock_with"@) + pu(seq!['=']) + grp(1u8, join_idents(self.fn_idents@))
    }

    fn unmock_with(&self, stream: &mut TokenStream)
        requires self.fn_idents@.len() < usize::MAX
        ensures tv(*final(stream)) == tv(*old(stream)) + self.unmock_toks()
    {
        use syn::token::*;
        use syn::Ident;

        let span = self.span;
        let ghost s0 = tv(*stream);

        Ident::new("unmock_with", span).to_tokens(stream);
        Eq(span).to_tokens(stream);

        Bracket(span).surround(stream, |stream|
            ensures tv(*final(stream)) == tv(*old(stream)) + join_idents(self.fn_idents@)
        {
            let ghost c0 = tv(*stream);
            let mut punctuator = comma_sep(stream, span);
            let ghost fin0 = punctuator.fin();
            let ghost cfg0 = punctuator;

            for fn_ident in it: self.fn_idents
                invariant
                    self.fn_idents@.len() < usize::MAX,
                    punctuator.pos() == it.index@,
                    punctuator.same_cfg(&cfg0),
                    punctuator.out() == c0 + join_idents(self.fn_idents@.take(it.index@)),
            {
                proof {
                    let xs = self.fn_idents@.take(it.index@);
                    assert(self.fn_idents@.take(it.index@ + 1).drop_last() =~= xs);
                    assert(self.fn_idents@.take(it.index@ + 1).last() == *fn_ident);
                    assert(c0 + join_idents(xs) + punctuator.sep_toks() + tk(fn_ident) =~= c0 + (join_idents(xs) + punctuator.sep_toks() + tk(fn_ident)));
                    if xs.len() == 0 { assert(join_idents(xs) =~= Seq::<Tok>::empty()); assert(self.fn_idents@.take(1)[0] == *fn_ident); }
                }
                punctuator.push(fn_ident);
            }
            proof { assert(self.fn_idents@.take(self.fn_idents@.len() as int) =~= self.fn_idents@); }
            punctuator.vx_drop();
        });
        proof {
            assert(tv(*stream) =~= s0 + self.unmock_toks());
        }
    }
}

} // verus!
fn main() {}
