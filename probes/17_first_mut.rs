// probe 17: a function returning `Option<&mut T>` with a contract over `*final(r->Some_0)`, assignment through the
// borrow, `match` on a `&mut` enum.   verus 17_first_mut.rs   -> 1 verified
// negative control: change the ensures of `rewrite` to `Arg::Recv(2)` -> postcondition not satisfied
use vstd::prelude::*;
verus! {
pub enum Arg { Recv(u8), Typed(u16) }

#[verifier::external_body]
pub fn first_mut(v: &mut Vec<Arg>) -> (r: Option<&mut Arg>)
    ensures
        old(v).len() == 0 ==> r is None && *final(v) == *old(v),
        old(v).len() > 0 ==> r is Some && *r->Some_0 == old(v)@[0] && final(v)@ == old(v)@.update(0, *final(r->Some_0)),
{ v.first_mut() }

fn rewrite(v: &mut Vec<Arg>)
    requires old(v).len() > 0, old(v)@[0] is Typed,
    ensures final(v)@ == old(v)@.update(0, Arg::Recv(1)),
{
    let input = first_mut(v).unwrap();
    match input {
        Arg::Typed(t) => {
            let x = *t;
            *input = Arg::Recv(1);
        }
        Arg::Recv(_) => { assert(false); }
    }
}
}
fn main() {}
