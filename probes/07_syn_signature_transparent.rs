use vstd::prelude::*;
verus! {
macro_rules! ext_opaque {
    ($($name:ident => $ty:ty),* $(,)?) => { $(
        #[verifier::external_type_specification]
        #[verifier::external_body]
        pub struct $name($ty);
    )* }
}
ext_opaque!{
  ExIdent => proc_macro2::Ident, ExSpan => proc_macro2::Span,
  ExConst => syn::token::Const, ExAsync => syn::token::Async, ExUnsafe => syn::token::Unsafe, ExAbi => syn::Abi,
  ExFn => syn::token::Fn, ExGenerics => syn::Generics, ExParen => syn::token::Paren, ExVariadic => syn::Variadic,
  ExReturnType => syn::ReturnType, ExComma => syn::token::Comma, ExReceiver0 => syn::token::SelfValue,
  ExAttr => syn::Attribute, ExAnd => syn::token::And, ExLifetime => syn::Lifetime, ExMut => syn::token::Mut,
  ExColon => syn::token::Colon, ExPat => syn::Pat,
  ExTypeArray => syn::TypeArray, ExTypeBareFn => syn::TypeBareFn, ExTypeGroup => syn::TypeGroup, ExTypeImplTrait => syn::TypeImplTrait,
  ExTypeInfer => syn::TypeInfer, ExTypeMacro => syn::TypeMacro, ExTypeNever => syn::TypeNever, ExTypeParen => syn::TypeParen,
  ExTypePath => syn::TypePath, ExTypePtr => syn::TypePtr, ExTypeSlice => syn::TypeSlice,
  ExTypeTraitObject => syn::TypeTraitObject, ExTypeTuple => syn::TypeTuple, ExTokenStream => proc_macro2::TokenStream,
}
#[verifier::external_type_specification]
#[verifier::external_body]
#[verifier::reject_recursive_types(T)]
#[verifier::reject_recursive_types(P)]
pub struct ExPunctuated<T, P>(syn::punctuated::Punctuated<T, P>);

#[verifier::external_type_specification]
pub struct ExSignature(syn::Signature);
#[verifier::external_type_specification]
pub struct ExFnArg(syn::FnArg);
#[verifier::external_type_specification]
pub struct ExReceiver(syn::Receiver);
#[verifier::external_type_specification]
pub struct ExPatType(syn::PatType);
#[verifier::external_type_specification]
pub struct ExType(syn::Type);
#[verifier::external_type_specification]
pub struct ExTypeReference(syn::TypeReference);

pub uninterp spec fn pseq<T, P>(p: &syn::punctuated::Punctuated<T, P>) -> Seq<T>;
pub assume_specification<T, P>[ syn::punctuated::Punctuated::<T, P>::first ](p: &syn::punctuated::Punctuated<T, P>) -> (r: Option<&T>)
    ensures pseq(p).len() == 0 ==> r is None,
            pseq(p).len() > 0 ==> r == Some(&pseq(p)[0]);
pub assume_specification<T, P>[ syn::punctuated::Punctuated::<T, P>::is_empty ](p: &syn::punctuated::Punctuated<T, P>) -> (r: bool)
    ensures r == (pseq(p).len() == 0);

fn first_is_self_by_value(sig: &syn::Signature) -> (r: bool)
    ensures r == (pseq(&sig.inputs).len() > 0 && (match pseq(&sig.inputs)[0] { syn::FnArg::Receiver(rc) => rc.reference is None, _ => false }))
{
    match sig.inputs.first() {
        Some(syn::FnArg::Receiver(receiver)) => receiver.reference.is_none(),
        _ => false,
    }
}

fn is_ref(ty: &syn::Type) -> (r: bool)
    ensures r == (ty is Reference)
{
    match ty {
        syn::Type::Reference(type_reference) => true,
        _ => false,
    }
}

fn is_async(sig: &syn::Signature) -> (r: bool) ensures r == sig.asyncness.is_some() { sig.asyncness.is_some() }
} // verus!
fn main() {}
