use vstd::prelude::*;
verus! {

#[verifier::external_body]
#[derive(Clone, Copy)]
pub struct Span { _p: u8 }

pub struct MockApiIdent(pub Ident);

#[verifier::external_body]
pub struct Ident { _s: String }

pub struct Opts {
    pub default_span: Span,
    pub no_deps: Option<SpanOpt<bool>>,
    pub debug: Option<SpanOpt<bool>>,
    pub export: Option<SpanOpt<bool>>,
    pub future_send: Option<SpanOpt<FutureSend>>,
    pub mock_api: Option<MockApiIdent>,
    pub unimock: Option<SpanOpt<bool>>,
    pub mockall: Option<SpanOpt<bool>>,
}

#[derive(Clone, Copy)]
pub struct FutureSend(pub bool);

#[derive(Copy, Clone)]
pub struct SpanOpt<T>(pub T, pub Span);

#[derive(Clone, Copy)]
pub enum Mockable {
    Yes,
    No,
}

impl Mockable {
    pub fn yes(self) -> (r: bool)
        ensures r == (self is Yes)
    {
        matches!(self, Self::Yes)
    }
}

impl Opts {
    pub fn no_deps_value(&self) -> (r: bool)
        ensures r == (match self.no_deps { Some(o) => o.0, None => false })
    {
        self.default_option(self.no_deps, false).0
    }

    pub fn export_value(&self) -> (r: bool)
        ensures r == (match self.export { Some(o) => o.0, None => false })
    {
        self.default_option(self.export, false).0
    }

    pub fn future_send(&self) -> (r: FutureSend)
        ensures r.0 == (match self.future_send { Some(o) => o.0.0, None => true })
    {
        self.default_option(self.future_send, FutureSend(true)).0
    }

    pub fn mockable(&self) -> (r: Mockable)
        ensures (r is Yes) == ((self.unimock.is_some() && self.mock_api.is_some()) || self.mockall.is_some())
    {
        if (self.unimock.is_some() && self.mock_api.is_some()) || self.mockall.is_some() {
            Mockable::Yes
        } else {
            Mockable::No
        }
    }

    pub fn default_option<T>(&self, option: Option<SpanOpt<T>>, default: T) -> (r: SpanOpt<T>)
        ensures r.0 == (match option { Some(o) => o.0, None => default }),
    {
        match option {
            Some(option) => option,
            None => SpanOpt(default, self.default_span),
        }
    }
}

} // verus!
fn main() {}
