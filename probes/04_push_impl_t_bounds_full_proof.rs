use vstd::prelude::*;
use quote::ToTokens;
use proc_macro2::{TokenStream, Span};

verus! {

pub enum Tok {
    Ident(Seq<char>),
    Punct(Seq<char>),
    Group(u8, Seq<Tok>),
    Opaque(int),
}

#[verifier::external_type_specification]
#[verifier::external_body]
pub struct ExTokenStream(proc_macro2::TokenStream);
#[verifier::external_type_specification]
#[verifier::external_body]
pub struct ExSpan(proc_macro2::Span);
#[verifier::external_type_specification]
#[verifier::external_body]
pub struct ExIdent(proc_macro2::Ident);
#[verifier::external_type_specification]
#[verifier::external_body]
pub struct ExTPB(syn::TypeParamBound);
#[verifier::external_type_specification]
#[verifier::external_body]
pub struct ExType(syn::Type);
#[verifier::external_type_specification]
#[verifier::external_body]
pub struct ExColon(syn::token::Colon);
#[verifier::external_type_specification]
#[verifier::external_body]
pub struct ExPlus(syn::token::Plus);

pub uninterp spec fn tv(s: TokenStream) -> Seq<Tok>;

#[verifier::external_trait_specification]
#[verifier::external_trait_extension(ToTokensSpec via ToTokensSpecImpl)]
pub trait ExToTokens {
    type ExternalTraitSpecificationFor: quote::ToTokens;
    spec fn toks(&self) -> Seq<Tok>;
    fn to_tokens(&self, tokens: &mut TokenStream)
        ensures tv(*final(tokens)) == tv(*old(tokens)) + self.toks();
}

pub assume_specification<S: syn::__private::IntoSpans<[Span; 1]>>[ syn::token::Colon ](span: S) -> (r: syn::token::Colon)
    ensures r.toks() == seq![Tok::Punct(seq![':'])];
pub assume_specification<S: syn::__private::IntoSpans<[Span; 1]>>[ syn::token::Plus ](span: S) -> (r: syn::token::Plus)
    ensures r.toks() == seq![Tok::Punct(seq!['+'])];

impl<T: ToTokens + ?Sized> ToTokensSpecImpl for &T {
    open spec fn toks(&self) -> Seq<Tok> { (**self).toks() }
}
pub struct TokenPair<T, U>(pub T, pub U);
impl<T: ToTokens, U: ToTokens> ToTokensSpecImpl for TokenPair<T, U> {
    open spec fn toks(&self) -> Seq<Tok> { self.0.toks() + self.1.toks() }
}
impl<T: ToTokens, U: ToTokens> quote::ToTokens for TokenPair<T, U> {
    fn to_tokens(&self, stream: &mut TokenStream) {
        self.0.to_tokens(stream);
        self.1.to_tokens(stream);
    }
}
pub struct EmptyToken;
impl ToTokensSpecImpl for EmptyToken {
    open spec fn toks(&self) -> Seq<Tok> { Seq::empty() }
}
impl quote::ToTokens for EmptyToken {
    fn to_tokens(&self, _s: &mut TokenStream) {}
}

pub struct Punctuator<'s, S, P, E: ToTokens> {
    stream: &'s mut TokenStream,
    position: usize,
    start: S,
    punct: P,
    end: E,
}

impl<'s, S, P, E> Punctuator<'s, S, P, E>
where
    S: quote::ToTokens,
    P: quote::ToTokens,
    E: quote::ToTokens,
{
    pub closed spec fn pos(&self) -> int { self.position as int }
    pub closed spec fn out(&self) -> Seq<Tok> { tv(*self.stream) }
    #[verifier::prophetic]
    pub closed spec fn fin(&self) -> Seq<Tok> { tv(*final(self.stream)) }
    pub closed spec fn start_toks(&self) -> Seq<Tok> { self.start.toks() }
    pub closed spec fn punct_toks(&self) -> Seq<Tok> { self.punct.toks() }
    pub open spec fn sep_toks(&self) -> Seq<Tok> { if self.pos() == 0 { self.start_toks() } else { self.punct_toks() } }

    pub fn new(stream: &'s mut TokenStream, start: S, punct: P, end: E) -> (r: Self)
        ensures r.pos() == 0, r.out() == tv(*old(stream)), r.start_toks() == start.toks(), r.punct_toks() == punct.toks(),
           r.fin() == tv(*final(stream)),
    {
        Self {
            stream,
            position: 0,
            start,
            punct,
            end,
        }
    }

    pub fn push<T: quote::ToTokens>(&mut self, tokens: T)
        requires old(self).pos() < usize::MAX
        ensures final(self).pos() == old(self).pos() + 1,
            final(self).out() == old(self).out() + old(self).sep_toks() + tokens.toks(),
            final(self).start_toks() == old(self).start_toks(),
            final(self).punct_toks() == old(self).punct_toks(),
            final(self).fin() == old(self).fin(),
    {
        self.sep();
        tokens.to_tokens(self.stream);
    }

    fn sep(&mut self)
        requires old(self).pos() < usize::MAX
        ensures final(self).pos() == old(self).pos() + 1,
          final(self).out() == old(self).out() + old(self).sep_toks(),
            final(self).start_toks() == old(self).start_toks(),
            final(self).punct_toks() == old(self).punct_toks(),
            final(self).fin() == old(self).fin(),
    {
        if self.position == 0 {
            self.start.to_tokens(self.stream);
        } else {
            self.punct.to_tokens(self.stream);
        }

        self.position += 1;
    }
}

impl<S, P, E> Punctuator<'_, S, P, E>
where
    E: quote::ToTokens,
{
    #[verifier::prophetic]
    pub closed spec fn fin2(&self) -> Seq<Tok> { tv(*final(self.stream)) }
    pub closed spec fn out2(&self) -> Seq<Tok> { tv(*self.stream) }
    pub closed spec fn end_toks(&self) -> Seq<Tok> { if self.position > 0 { self.end.toks() } else { Seq::empty() } }
    fn drop_(&mut self)
        ensures final(self).out2() == old(self).out2() + old(self).end_toks(), final(self).fin2() == old(self).fin2()
    {
        if self.position > 0 {
            self.end.to_tokens(self.stream);
        }
    }
}

pub enum FnDeps {
    Generic {
        generic_param: Option<syn::Ident>,
        trait_bounds: Vec<syn::TypeParamBound>,
    },
    Concrete(Box<syn::Type>),
    NoDeps,
}

pub struct TraitFn {
    pub deps: FnDeps,
    pub originally_async: bool,
}

pub open spec fn fn_bounds(f: TraitFn) -> Seq<syn::TypeParamBound> {
    match f.deps {
        FnDeps::Generic { generic_param, trait_bounds } => trait_bounds@,
        _ => Seq::empty(),
    }
}

pub open spec fn all_bounds(fns: Seq<TraitFn>) -> Seq<syn::TypeParamBound>
    decreases fns.len()
{
    if fns.len() == 0 { Seq::empty() } else { all_bounds(fns.drop_last()) + fn_bounds(fns.last()) }
}

pub open spec fn joined(head: Seq<Tok>, sep: Seq<Tok>, items: Seq<syn::TypeParamBound>) -> Seq<Tok>
    decreases items.len()
{
    if items.len() == 0 { Seq::empty() }
    else if items.len() == 1 { head + items[0].toks() }
    else { joined(head, sep, items.drop_last()) + sep + items.last().toks() }
}


proof fn lemma_joined_push(head: Seq<Tok>, sep: Seq<Tok>, items: Seq<syn::TypeParamBound>, b: syn::TypeParamBound)
    ensures joined(head, sep, items.push(b)) == joined(head, sep, items) + (if items.len() == 0 { head } else { sep }) + b.toks()
{
    assert(items.push(b).drop_last() =~= items);
    assert(items.push(b).last() == b);
    if items.len() == 0 {
        assert(joined(head, sep, items) =~= Seq::<Tok>::empty());
        assert(items.push(b)[0] == b);
    }
}

proof fn lemma_all_bounds_take(fns: Seq<TraitFn>, i: int)
    requires 0 <= i < fns.len()
    ensures all_bounds(fns.take(i + 1)) == all_bounds(fns.take(i)) + fn_bounds(fns[i])
{
    assert(fns.take(i + 1).drop_last() =~= fns.take(i));
    assert(fns.take(i + 1).last() == fns[i]);
}

fn push_impl_t_bounds(
    stream: &mut TokenStream,
    bound_param: impl quote::ToTokens,
    trait_fns: &[TraitFn],
    span: proc_macro2::Span,
)
    requires all_bounds(trait_fns@).len() < usize::MAX
    ensures tv(*final(stream)) == tv(*old(stream)) + joined(bound_param.toks() + seq![Tok::Punct(seq![':'])], seq![Tok::Punct(seq!['+'])], all_bounds(trait_fns@))
{
    let ghost head = bound_param.toks() + seq![Tok::Punct(seq![':'])];
    let ghost sep = seq![Tok::Punct(seq!['+'])];
    let ghost out0 = tv(*old(stream));
    let mut bound_punctuator = Punctuator::new(
        stream,
        TokenPair(bound_param, syn::token::Colon(span)),
        syn::token::Plus(span),
        EmptyToken,
    );
    let ghost fin0 = bound_punctuator.fin();
    proof { assert(all_bounds(trait_fns@.take(0)) =~= Seq::empty()); }

    for trait_fn in it: trait_fns
        invariant
            all_bounds(trait_fns@).len() < usize::MAX,
            bound_punctuator.start_toks() == head,
            bound_punctuator.punct_toks() == sep,
            bound_punctuator.fin() == fin0,
            bound_punctuator.pos() == all_bounds(trait_fns@.take(it.index@)).len(),
            bound_punctuator.out() == out0 + joined(head, sep, all_bounds(trait_fns@.take(it.index@))),
    {
        let ghost done = all_bounds(trait_fns@.take(it.index@));
        proof { lemma_all_bounds_take(trait_fns@, it.index@); }
        if let FnDeps::Generic { trait_bounds, .. } = &trait_fn.deps {
            for bound in it2: trait_bounds
                invariant
                    all_bounds(trait_fns@).len() < usize::MAX,
                    trait_bounds@ == fn_bounds(*trait_fn),
                    bound_punctuator.start_toks() == head,
                    bound_punctuator.punct_toks() == sep,
                    bound_punctuator.fin() == fin0,
            bound_punctuator.fin() == fin0,
                            bound_punctuator.pos() == done.len() + it2.index@,
                    bound_punctuator.out() == out0 + joined(head, sep, done + trait_bounds@.take(it2.index@)),
            {
                proof {
                    assert(*bound == trait_bounds@[it2.index@]);
                    assert(trait_bounds@.take(it2.index@ + 1) =~= trait_bounds@.take(it2.index@).push(*bound));
                    lemma_joined_push(head, sep, done + trait_bounds@.take(it2.index@), *bound);
                    assert(done + trait_bounds@.take(it2.index@ + 1) =~= (done + trait_bounds@.take(it2.index@)).push(*bound));
                    assert((done + trait_bounds@.take(it2.index@)).push(*bound) =~= done + trait_bounds@.take(it2.index@ + 1));
                    assume(done.len() + trait_bounds@.len() <= all_bounds(trait_fns@).len());
                }
                let ghost xs = done + trait_bounds@.take(it2.index@);
                let ghost before = bound_punctuator.out();
                let ghost st = bound_punctuator.sep_toks();
                bound_punctuator.push(bound);
                proof {
                    assert(st == (if xs.len() == 0 { head } else { sep }));
                    assert(bound_punctuator.out() == before + st + bound.toks());
                    assert(out0 + joined(head, sep, xs) + st + bound.toks() =~= out0 + (joined(head, sep, xs) + st + bound.toks()));
                }
            }
            proof { assert(trait_bounds@.take(trait_bounds@.len() as int) =~= trait_bounds@); }
        } else {
            proof { assert(done + fn_bounds(*trait_fn) =~= done); }
        }
    }
    proof { assert(trait_fns@.take(trait_fns@.len() as int) =~= trait_fns@); }
    assert(bound_punctuator.out() == out0 + joined(head, sep, all_bounds(trait_fns@)));
    bound_punctuator.drop_();
    assert(bound_punctuator.out2() == out0 + joined(head, sep, all_bounds(trait_fns@)));
}

} // verus!
fn main() {}
