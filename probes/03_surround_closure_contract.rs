use vstd::prelude::*;
use quote::ToTokens;
use proc_macro2::{TokenStream, Span};

verus! {

pub enum Tok {
    Ident(Seq<char>),
    Punct(Seq<char>),
    Group(u8, Seq<Tok>),
    Opaque(int),
}

#[verifier::external_type_specification]
#[verifier::external_body]
pub struct ExTokenStream(proc_macro2::TokenStream);
#[verifier::external_type_specification]
#[verifier::external_body]
pub struct ExBracket(syn::token::Bracket);
#[verifier::external_type_specification]
#[verifier::external_body]
pub struct ExPound(syn::token::Pound);

pub uninterp spec fn tv(s: TokenStream) -> Seq<Tok>;

#[verifier::external_trait_specification]
#[verifier::external_trait_extension(ToTokensSpec via ToTokensSpecImpl)]
pub trait ExToTokens {
    type ExternalTraitSpecificationFor: quote::ToTokens;
    spec fn toks(&self) -> Seq<Tok>;
    fn to_tokens(&self, tokens: &mut TokenStream)
        ensures tv(*final(tokens)) == tv(*old(tokens)) + self.toks();
}

pub assume_specification[ <syn::token::Pound as core::default::Default>::default ]() -> (r: syn::token::Pound)
    ensures r.toks() == seq![Tok::Punct(seq!['#'])];
pub assume_specification[ <syn::token::Bracket as core::default::Default>::default ]() -> (r: syn::token::Bracket);

pub assume_specification<F: FnOnce(&mut TokenStream)>[ syn::token::Bracket::surround ](this: &syn::token::Bracket, tokens: &mut TokenStream, f: F)
    requires forall|m: &mut TokenStream| f.requires((m,)),
    ensures exists|m: &mut TokenStream| #[trigger] f.ensures((m,), ()) && tv(*m) == Seq::<Tok>::empty()
        && tv(*final(tokens)) == tv(*old(tokens)).push(Tok::Group(1u8, tv(*final(m))));

pub struct Attr<P>(pub P);

impl<P: ToTokens> ToTokensSpecImpl for Attr<P> {
    open spec fn toks(&self) -> Seq<Tok> {
        seq![Tok::Punct(seq!['#']), Tok::Group(1u8, self.0.toks())]
    }
}

impl<P: ToTokens> quote::ToTokens for Attr<P> {
    fn to_tokens(&self, stream: &mut TokenStream) {
        syn::token::Pound::default().to_tokens(stream);
        syn::token::Bracket::default().surround(stream, |stream: &mut TokenStream|
            ensures tv(*final(stream)) == tv(*old(stream)) + self.0.toks()
        {
            self.0.to_tokens(stream);
        });
    }
}

} // verus!
fn main() {}
