use vstd::prelude::*;
verus! {
fn t_any(v: &[u8]) -> (r: bool)
    ensures r == (exists|i: int| 0 <= i < v@.len() && v@[i] == 1)
{
    v.iter().any(|x: &u8| -> (b: bool) ensures b == (*x == 1) { *x == 1 })
}
} // verus!
fn main() {}
