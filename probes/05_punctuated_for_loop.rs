use vstd::prelude::*;
use vstd::std_specs::iter::*;
verus! {

#[verifier::external_type_specification]
#[verifier::external_body]
pub struct ExWP(syn::WherePredicate);
#[verifier::external_type_specification]
#[verifier::external_body]
pub struct ExComma(syn::token::Comma);
#[verifier::external_type_specification]
#[verifier::external_body]
#[verifier::reject_recursive_types(T)]
#[verifier::reject_recursive_types(P)]
pub struct ExPunctuated<T, P>(syn::punctuated::Punctuated<T, P>);
#[verifier::external_type_specification]
#[verifier::external_body]
#[verifier::reject_recursive_types(T)]
pub struct ExPIter<'a, T: 'a>(syn::punctuated::Iter<'a, T>);

pub uninterp spec fn pseq<T, P>(p: &syn::punctuated::Punctuated<T, P>) -> Seq<T>;

pub assume_specification<'a, T, P>[ <&'a syn::punctuated::Punctuated<T, P> as core::iter::IntoIterator>::into_iter ](p: &'a syn::punctuated::Punctuated<T, P>) -> (r: <&'a syn::punctuated::Punctuated<T, P> as core::iter::IntoIterator>::IntoIter)
    ensures
        r.obeys_prophetic_iter_laws(),
        r.will_return_none(),
        r.remaining().len() == pseq(p).len(),
        forall|i: int| 0 <= i < pseq(p).len() ==> *r.remaining()[i] == pseq(p)[i],
        r.decrease() is Some,
;

pub assume_specification<'a, T>[ <syn::punctuated::Iter<'a, T> as core::iter::Iterator>::next ](it: &mut syn::punctuated::Iter<'a, T>) -> (r: Option<<syn::punctuated::Iter<'a, T> as core::iter::Iterator>::Item>);

fn count(p: &syn::punctuated::Punctuated<syn::WherePredicate, syn::token::Comma>)
{
    for x in it: p
        invariant it.iter.obeys_prophetic_iter_laws(), it.snapshot@.obeys_prophetic_iter_laws(), it.snapshot@.will_return_none(),
    {
    }
}

fn t2(p: &syn::punctuated::Punctuated<syn::WherePredicate, syn::token::Comma>) {
    let mut it = p.into_iter();
    assert(it.obeys_prophetic_iter_laws());
    assert(it.will_return_none());
    let ghost it0 = it;
    let r = it.next();
    assert(it.obeys_prophetic_iter_laws());
    assert(it.will_return_none());
    assert(r is None ==> it0.remaining().len() == 0);
}
} // verus!
fn main() {}
