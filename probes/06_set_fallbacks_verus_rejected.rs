use vstd::prelude::*;
verus! {
#[verifier::external_type_specification]
#[verifier::external_body]
pub struct ExSpan(proc_macro2::Span);

#[derive(Copy, Clone)]
pub struct SpanOpt<T>(pub T, pub proc_macro2::Span);

pub assume_specification[ proc_macro2::Span::call_site ]() -> proc_macro2::Span;

impl<T> SpanOpt<T> {
    pub fn of(value: T) -> (r: Self)
        ensures r.0 == value
    {
        Self(value, proc_macro2::Span::call_site())
    }
}

pub open spec fn fb(o: Option<SpanOpt<bool>>) -> Option<SpanOpt<bool>> {
    match o { Some(x) => Some(x), None => o }
}

fn set_fallbacks<const N: usize>(opts: [&mut Option<SpanOpt<bool>>; N])
    ensures forall|i: int| 0 <= i < N ==> (match *opts[i] { Some(x) => *final(opts[i]) == Some(x), None => (*final(opts[i])) matches Some(y) && y.0 == true })
{
    for opt in opts.into_iter() {
        opt.get_or_insert(SpanOpt::of(true));
    }
}
} // verus!
fn main() {}
