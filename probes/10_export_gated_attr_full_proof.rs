use vstd::prelude::*;
use quote::ToTokens;
use proc_macro2::{TokenStream, Span};

verus! {

pub enum Tok {
    Ident(Seq<char>),
    Punct(Seq<char>),
    Lit(Seq<char>),
    Group(u8, Seq<Tok>),
}
pub open spec fn id(s: Seq<char>) -> Seq<Tok> { seq![Tok::Ident(s)] }
pub open spec fn pu(s: Seq<char>) -> Seq<Tok> { seq![Tok::Punct(s)] }
pub open spec fn grp(d: u8, s: Seq<Tok>) -> Seq<Tok> { seq![Tok::Group(d, s)] }

macro_rules! ext_opaque {
    ($($name:ident => $ty:ty),* $(,)?) => { $(
        #[verifier::external_type_specification]
        #[verifier::external_body]
        pub struct $name($ty);
    )* }
}
ext_opaque!{
  ExTokenStream => proc_macro2::TokenStream, ExIdent => proc_macro2::Ident, ExSpan => proc_macro2::Span,
  ExPound => syn::token::Pound, ExBracket => syn::token::Bracket, ExParen => syn::token::Paren, ExComma => syn::token::Comma,
}

pub uninterp spec fn tv(s: TokenStream) -> Seq<Tok>;

#[verifier::external_trait_specification]
#[verifier::external_trait_extension(ToTokensSpec via ToTokensSpecImpl)]
pub trait ExToTokens {
    type ExternalTraitSpecificationFor: quote::ToTokens;
    spec fn toks(&self) -> Seq<Tok>;
    fn to_tokens(&self, tokens: &mut TokenStream)
        ensures tv(*final(tokens)) == tv(*old(tokens)) + self.toks();
}
impl<T: ToTokens + ?Sized> ToTokensSpecImpl for &T {
    open spec fn toks(&self) -> Seq<Tok> { (**self).toks() }
}
impl ToTokensSpecImpl for syn::token::Pound { open spec fn toks(&self) -> Seq<Tok> { pu(seq!['#']) } }
impl ToTokensSpecImpl for syn::token::Comma { open spec fn toks(&self) -> Seq<Tok> { pu(seq![',']) } }
pub uninterp spec fn ident_str(i: &proc_macro2::Ident) -> Seq<char>;
impl ToTokensSpecImpl for proc_macro2::Ident { open spec fn toks(&self) -> Seq<Tok> { id(ident_str(self)) } }

pub assume_specification[ <syn::token::Pound as core::default::Default>::default ]() -> (r: syn::token::Pound);
pub assume_specification[ <syn::token::Comma as core::default::Default>::default ]() -> (r: syn::token::Comma);
pub assume_specification[ <syn::token::Bracket as core::default::Default>::default ]() -> (r: syn::token::Bracket);
pub assume_specification[ <syn::token::Paren as core::default::Default>::default ]() -> (r: syn::token::Paren);
pub assume_specification[ proc_macro2::Span::call_site ]() -> proc_macro2::Span;
pub assume_specification[ proc_macro2::Ident::new ](s: &str, span: Span) -> (r: proc_macro2::Ident)
    ensures ident_str(&r) == s@;

pub assume_specification<F: FnOnce(&mut TokenStream)>[ syn::token::Bracket::surround ](this: &syn::token::Bracket, tokens: &mut TokenStream, f: F)
    requires forall|m: &mut TokenStream| f.requires((m,)),
    ensures exists|m: &mut TokenStream| #[trigger] f.ensures((m,), ()) && tv(*m) == Seq::<Tok>::empty()
        && tv(*final(tokens)) == tv(*old(tokens)) + grp(1u8, tv(*final(m)));
pub assume_specification<F: FnOnce(&mut TokenStream)>[ syn::token::Paren::surround ](this: &syn::token::Paren, tokens: &mut TokenStream, f: F)
    requires forall|m: &mut TokenStream| f.requires((m,)),
    ensures exists|m: &mut TokenStream| #[trigger] f.ensures((m,), ()) && tv(*m) == Seq::<Tok>::empty()
        && tv(*final(tokens)) == tv(*old(tokens)) + grp(0u8, tv(*final(m)));

// ---- opt.rs kernel (real text)
#[derive(Copy, Clone)]
pub struct SpanOpt<T>(pub T, pub Span);
pub struct Opts {
    pub default_span: Span,
    pub export: Option<SpanOpt<bool>>,
}
impl Opts {
    pub open spec fn export_spec(&self) -> bool { match self.export { Some(o) => o.0, None => false } }
    pub fn export_value(&self) -> (r: bool)
        ensures r == self.export_spec()
    {
        self.default_option(self.export, false).0
    }
    pub fn default_option<T>(&self, option: Option<SpanOpt<T>>, default: T) -> (r: SpanOpt<T>)
        ensures r.0 == (match option { Some(o) => o.0, None => default }),
    {
        match option {
            Some(option) => option,
            None => SpanOpt(default, self.default_span),
        }
    }
}

// ---- attributes.rs (real text)
pub trait IsEmpty {
    spec fn is_empty_spec(&self) -> bool;
    fn is_empty(&self) -> (r: bool)
        ensures r == self.is_empty_spec();
}

pub struct ExportGatedAttr<'a, P: ToTokens + IsEmpty> {
    pub params: P,
    pub opts: &'a Opts,
}

impl<P: ToTokens + IsEmpty> ToTokensSpecImpl for ExportGatedAttr<'_, P> {
    open spec fn toks(&self) -> Seq<Tok> {
        if self.params.is_empty_spec() { Seq::empty() }
        else if self.opts.export_spec() { pu(seq!['#']) + grp(1u8, self.params.toks()) }
        else { pu(seq!['#']) + grp(1u8, id("cfg_attr"@) + grp(0u8, id("test"@) + pu(seq![',']) + self.params.toks())) }
    }
}

impl<P: ToTokens + IsEmpty> ToTokens for ExportGatedAttr<'_, P> {
    fn to_tokens(&self, stream: &mut TokenStream) {
        if self.params.is_empty() {
            return;
        }
        syn::token::Pound::default().to_tokens(stream);
        syn::token::Bracket::default().surround(stream, |stream|
            ensures tv(*final(stream)) == tv(*old(stream)) + (if self.opts.export_spec() { self.params.toks() } else { id("cfg_attr"@) + grp(0u8, id("test"@) + pu(seq![',']) + self.params.toks()) })
        {
            let ghost s0 = tv(*stream);
            if self.opts.export_value() {
                self.params.to_tokens(stream);
            } else {
                syn::Ident::new("cfg_attr", Span::call_site()).to_tokens(stream);
                syn::token::Paren::default().surround(stream, |stream|
                    ensures tv(*final(stream)) == tv(*old(stream)) + id("test"@) + pu(seq![',']) + self.params.toks()
                {
                    syn::Ident::new("test", Span::call_site()).to_tokens(stream);
                    syn::token::Comma::default().to_tokens(stream);
                    self.params.to_tokens(stream)
                });
                proof {
                    let x = id("test"@) + pu(seq![',']) + self.params.toks();
                    assert(Seq::<Tok>::empty() + id("test"@) + pu(seq![',']) + self.params.toks() =~= x);
                    assert(tv(*stream) =~= s0 + (id("cfg_attr"@) + grp(0u8, x)));
                }
            }
        });
    }
}

} // verus!
fn main() {}
