#[derive(Copy, Clone)]
pub struct SpanOpt<T>(pub T, pub proc_macro2::Span);
impl<T> SpanOpt<T> {
    pub fn of(value: T) -> Self {
        Self(value, proc_macro2::Span::call_site())
    }
}
fn set_fallbacks<const N: usize>(opts: [&mut Option<SpanOpt<bool>>; N]) {
    for opt in opts.into_iter() {
        opt.get_or_insert(SpanOpt::of(true));
    }
}
#[cfg(kani)]
mod proofs {
    use super::*;
    fn any_opt() -> Option<SpanOpt<bool>> {
        if kani::any() { Some(SpanOpt(kani::any(), proc_macro2::Span::call_site())) } else { None }
    }
    #[kani::proof]
    #[kani::unwind(3)]
    fn check_set_fallbacks_2() {
        let mut a = any_opt();
        let mut b = any_opt();
        let a0 = a.map(|x| x.0);
        let b0 = b.map(|x| x.0);
        set_fallbacks([&mut a, &mut b]);
        assert!(a.map(|x| x.0) == Some(a0.unwrap_or(true)));
        assert!(b.map(|x| x.0) == Some(b0.unwrap_or(true)));
    }
}
