"""E2: bounded contract replay (labelled stand-in, never counted as proved).

On every run the replay crate is regenerated under build/replay/<pid>/ from the working tree
of the repository: every file of entrait_macros/src is copied byte for byte (glue modules from
replay/glue/ are *appended* so that private functions are reachable the way the crate's own
`#[cfg(test)] mod tests` reaches them), lib.rs becomes main.rs after the mechanical rewrite R1
below, and replay/contracts/*.rs become the module vx_contracts.

R1 (lib.rs -> main.rs), needed because proc_macro::TokenStream only exists inside a compiler:
  `extern crate proc_macro;` dropped; `#[proc_macro_attribute]` dropped;
  `proc_macro::TokenStream` / `use proc_macro::TokenStream` -> proc_macro2;
  `syn::parse_macro_input!(x as T)` -> `match syn::parse2::<T>(x) { Ok(v) => v, Err(e) => return e.to_compile_error() }`
  (which is the documented expansion of that macro, modulo the TokenStream type).
"""
import os, json, subprocess, time, shutil, re, glob

ROOT = os.path.dirname(os.path.dirname(os.path.abspath(__file__)))
REPO = os.environ.get("VX_REPO", "/repo")
SRC = os.path.join(REPO, "entrait_macros", "src")
BUILD = os.path.join(ROOT, "build") if not os.environ.get("VX_SCRATCH_OUT") else os.path.join(ROOT, "build", "scratch" + ("-" + os.environ["VX_SCRATCH_ID"] if os.environ.get("VX_SCRATCH_ID") else ""))
TARGET = os.path.join(BUILD, "replay-target")
ENV = dict(os.environ, CARGO_NET_OFFLINE="true", CARGO_TARGET_DIR=TARGET)


def rewrite_lib(text):
    t = text
    t = t.replace("extern crate proc_macro;", "")
    t = t.replace("#[proc_macro_attribute]", "")
    t = t.replace("use proc_macro::TokenStream;", "use proc_macro2::TokenStream;")
    t = t.replace("proc_macro::TokenStream", "proc_macro2::TokenStream")
    t = re.sub(r"syn::parse_macro_input!\(\s*(\w+)\s+as\s+([\w:]+)\s*\)",
               r"match syn::parse2::<\2>(\1) { Ok(v) => v, Err(e) => return e.to_compile_error() }", t)
    t = t.replace("#![forbid(unsafe_code)]", "#![forbid(unsafe_code)]\n#![allow(dead_code, unused)]")
    t += "\n#[path = \"vx_contracts/mod.rs\"]\nmod vx_contracts;\nfn main() { vx_contracts::main() }\n"
    return t


def generate(dest):
    if os.path.isdir(dest):
        shutil.rmtree(dest)
    os.makedirs(os.path.join(dest, "src"))
    shutil.copy(os.path.join(ROOT, "replay", "Cargo.toml"), dest)
    lock = os.path.join(ROOT, "replay", "Cargo.lock")
    if os.path.exists(lock):
        shutil.copy(lock, dest)
    for dp, dn, fn in os.walk(SRC):
        for f in fn:
            if not f.endswith(".rs"):
                continue
            rel = os.path.relpath(os.path.join(dp, f), SRC)
            text = open(os.path.join(dp, f)).read()
            if rel == "lib.rs":
                out = os.path.join(dest, "src", "main.rs")
                text = rewrite_lib(text)
            else:
                out = os.path.join(dest, "src", rel)
                g = os.path.join(ROOT, "replay", "glue", rel)
                if os.path.exists(g):
                    glue = open(g).read()
                    # glue may name private functions (`// vx-requires: <signature text>`); if the tree being checked
                    # does not have them under that name and signature, the fallback glue is appended instead, so that
                    # a renamed helper makes one contract report "not replayed" rather than break the whole harness
                    needs = re.findall(r"^// vx-requires: (.+)$", glue, re.M)
                    squash = lambda t: re.sub(r"\s+", "", t)
                    if needs and not all(squash(n) in squash(text) for n in needs) and os.path.exists(g + ".fallback"):
                        glue = open(g + ".fallback").read()
                    text = text + "\n// ---- appended by /verif (glue, append-only) ----\n" + glue
            os.makedirs(os.path.dirname(out), exist_ok=True)
            open(out, "w").write(text)
    cdir = os.path.join(dest, "src", "vx_contracts")
    os.makedirs(cdir)
    for f in glob.glob(os.path.join(ROOT, "replay", "contracts", "*.rs")):
        shutil.copy(f, cdir)


def build(dest, log):
    p = subprocess.run(["cargo", "build", "--offline", "--quiet"], cwd=dest, env=ENV, stdout=subprocess.PIPE, stderr=subprocess.PIPE, text=True)
    return p.returncode, p.stderr


def setup(log):
    log("vx setup: replay harness (warm build)")
    dest = os.path.join(BUILD, "replay", "setup")
    generate(dest)
    rc, err = build(dest, log)
    if rc != 0:
        log(err[-3000:])
        return 2
    # keep the lock file that cargo resolved offline next to the template
    lk = os.path.join(dest, "Cargo.lock")
    if os.path.exists(lk) and not os.path.exists(os.path.join(ROOT, "replay", "Cargo.lock")):
        shutil.copy(lk, os.path.join(ROOT, "replay", "Cargo.lock"))
    return 0


def run(pid, tier, seed, log):
    dest = os.path.join(BUILD, "replay", pid)
    t0 = time.time()
    generate(dest)
    rc, err = build(dest, log)
    if rc != 0:
        return {"status": "build-failed", "message": "replay crate does not build against this tree: " + err[-1500:], "contracts": []}
    out = os.path.join(dest, "result.json")
    exe = os.path.join(TARGET, "debug", "vx-replay")
    # the binary name is shared between per-property crates; copy to avoid races between parallel checks
    exe_local = os.path.join(dest, "vx-replay")
    shutil.copy(exe, exe_local)
    p = subprocess.run([exe_local, "--prop", pid, "--tier", tier, "--out", out], stdout=subprocess.PIPE, stderr=subprocess.PIPE, text=True, timeout=3600)
    if p.returncode != 0 or not os.path.exists(out):
        return {"status": "crashed", "message": "replay binary failed: " + (p.stderr or p.stdout)[-1500:], "contracts": []}
    r = json.load(open(out))
    r["status"] = "ok"
    r["wall_s"] = time.time() - t0
    return r


def replay_input(d, log):
    fi = d.get("failing_input") or {}
    pid = d["property"]
    dest = os.path.join(BUILD, "replay", pid)
    generate(dest)
    rc, err = build(dest, log)
    if rc != 0:
        print("replay crate does not build:", err[-1000:])
        return 2
    exe = os.path.join(TARGET, "debug", "vx-replay")
    p = subprocess.run([exe, "--prop", pid, "--tier", "quick", "--only", (d.get("detail") or {}).get("contract", ""), "--case", fi.get("input", ""), "--out", os.path.join(dest, "replay.json")],
                       stdout=subprocess.PIPE, stderr=subprocess.PIPE, text=True)
    print(p.stdout[-3000:])
    r = json.load(open(os.path.join(dest, "replay.json")))
    bad = sum(len(c["failures"]) for c in r["contracts"])
    print("replayed on the real code: %s" % ("contract FAILS on this input" if bad else "contract holds on this input"))
    return 1 if bad else 0
