"""E2: bounded contract replay (labelled stand-in, never counted as proved)."""
import os, json, subprocess, time

ROOT = os.path.dirname(os.path.dirname(os.path.abspath(__file__)))


def setup(log):
    return 0


def run(pid, tier, seed, log):
    return {"status": "ok", "contracts": [], "conformance": None}


def replay_input(d, log):
    print("no replay harness built yet")
    return 2
