import json, os, re, subprocess, sys, time, hashlib, shutil, glob

ROOT = os.path.dirname(os.path.dirname(os.path.abspath(__file__)))
REPO = os.environ.get("VX_REPO", "/repo")
BUILD = os.path.join(ROOT, "build")
SRC = os.path.join(REPO, "entrait_macros", "src")
ASSEMBLE = os.path.join(BUILD, "assemble", "debug", "vx-assemble")
DEPS = os.path.join(BUILD, "deps", "debug", "deps")
VERUS_TOOLCHAIN = "1.98.1"
ENV = dict(os.environ, CARGO_NET_OFFLINE="true")

sys.path.insert(0, os.path.dirname(os.path.abspath(__file__)))
import props as P      # noqa: E402
import e2              # noqa: E402
import e3              # noqa: E402

VERIF_FAIL = (
    "postcondition not satisfied", "precondition not satisfied", "assertion failed",
    "invariant not satisfied", "decreases not satisfied", "unable to prove post-condition of closure",
    "possible arithmetic", "possible division by zero", "loop invariant", "unable to prove",
    "possible bit shift", "recommendation not met", "index out of bounds", "constructed value may fail",
)


def sh(cmd, cwd=None, timeout=None, env=None):
    t0 = time.time()
    p = subprocess.run(cmd, cwd=cwd, stdout=subprocess.PIPE, stderr=subprocess.PIPE, text=True,
                       timeout=timeout, env=env or ENV, shell=isinstance(cmd, str))
    return p.returncode, p.stdout, p.stderr, time.time() - t0


def log(*a):
    print(*a, file=sys.stderr, flush=True)


# ---------------------------------------------------------------------------------- setup

def ext_flags():
    def one(pat):
        g = sorted(glob.glob(os.path.join(DEPS, pat)))
        if not g:
            raise SystemExit("vx: dependency rlibs missing (%s); run ./vx setup" % pat)
        return g[0]
    return ["--extern", "syn=" + one("libsyn-*.rlib"), "--extern", "quote=" + one("libquote-*.rlib"),
            "--extern", "proc_macro2=" + one("libproc_macro2-*.rlib"), "-L", "dependency=" + DEPS]


def setup():
    os.makedirs(BUILD, exist_ok=True)
    steps = [
        ("dependency rlibs for the Verus toolchain",
         ["cargo", "+" + VERUS_TOOLCHAIN, "build", "--offline"], os.path.join(ROOT, "tools", "deps"),
         dict(ENV, CARGO_TARGET_DIR=os.path.join(BUILD, "deps"))),
        ("vx-assemble", ["cargo", "build", "--offline"], os.path.join(ROOT, "tools", "assemble"),
         dict(ENV, CARGO_TARGET_DIR=os.path.join(BUILD, "assemble"))),
    ]
    for name, cmd, cwd, env in steps:
        log("vx setup:", name)
        rc, out, err, dt = sh(cmd, cwd=cwd, env=env)
        if rc != 0:
            log(err[-4000:])
            return 2
        log("   ok (%.1fs)" % dt)
    rc = e2.setup(log)
    if rc:
        return rc
    rc = e3.setup(log)
    if rc:
        return rc
    # warm Verus (first run after a restore is slower)
    return 0


# ---------------------------------------------------------------------------------- E1: Verus

def assemble(unit_dir, demote=()):
    cmd = [ASSEMBLE, "assemble", "--src", SRC, "--contracts", os.path.join(ROOT, "contracts"),
           "--prelude", os.path.join(ROOT, "specs", "prelude.rs"), "--out", unit_dir]
    if demote:
        cmd += ["--demote", ";".join(sorted(demote))]
    rc, out, err, dt = sh(cmd)
    return rc, err, dt


def unit_hash(unit_dir):
    h = hashlib.sha256()
    for dp, dn, fn in sorted(os.walk(unit_dir)):
        dn.sort()
        for f in sorted(fn):
            if f == "map.json":
                continue
            p = os.path.join(dp, f)
            h.update(os.path.relpath(p, unit_dir).encode())
            h.update(open(p, "rb").read())
    return h.hexdigest()


def clause_lines(text):
    """Count contract clauses in a spliced payload: every non-empty line that is not a bare
    keyword, a comment or a closing bracket continues/starts a clause; we count clause *starts*:
    lines ending in ',' or the last line of the payload."""
    n = 0
    for ln in text.splitlines():
        s = ln.strip()
        if not s or s.startswith("//") or s in ("requires", "ensures", "invariant", "decreases", "{", "}"):
            continue
        if s.startswith("->"):
            continue
        if s.endswith(",") or s.endswith(";"):
            n += 1
    return n


def run_verus(unit_dir, rlimit=30, multiple_errors=8, smt_seed=None):
    cmd = ["verus", os.path.join(unit_dir, "root.rs")] + ext_flags() + [
        "--error-format=json", "--output-json", "--time-expanded", "--triggers-mode", "silent",
        "--multiple-errors", str(multiple_errors), "--rlimit", str(rlimit)]
    if smt_seed is not None:
        cmd += ["--smt-option", "smt.random_seed=%d" % smt_seed]
    rc, out, err, dt = sh(cmd, cwd=unit_dir, timeout=1800)
    diags = []
    for ln in err.splitlines():
        ln = ln.strip()
        if ln.startswith("{"):
            try:
                diags.append(json.loads(ln))
            except Exception:
                pass
    try:
        summary = json.loads(out[out.index("{"):]) if "{" in out else {}
    except Exception:
        summary = {}
    return {"rc": rc, "diags": diags, "summary": summary, "wall_s": dt, "cmd": " ".join(cmd), "stderr_tail": err[-3000:]}


def e1(unit_dir):
    """E1 with automatic demotion: if Verus *rejects* a construct inside a function under contract
    (e.g. a change introduced an iterator adapter or format!), that function alone is demoted to
    external_body (its obligations become undecided) and the unit is verified again."""
    demote = set()
    for _ in range(4):
        res = e1_once(unit_dir, demote)
        if res["status"] != "rejected":
            return res
        new = set()
        for rj in res["rejected"]:
            if rj.get("fn"):
                new.add("%s|%s|%s" % (rj["file"], rj["item"], rj["fn"]))
        new -= demote
        if not new:
            return res
        demote |= new
    return res


def e1_once(unit_dir, demote=()):
    """Assemble the unit from REPO's working tree, verify it, attribute failures."""
    res = {"status": "ok", "failures": [], "rejected": [], "lost": [], "fns": [], "canary_failed": False}
    if os.path.isdir(unit_dir):
        shutil.rmtree(unit_dir)
    rc, err, dt = assemble(unit_dir, demote)
    res["assemble_s"] = dt
    if rc != 0:
        res["status"] = "assemble-error"
        res["message"] = err.strip()[-2000:]
        return res
    m = json.load(open(os.path.join(unit_dir, "map.json")))
    res["normalisations"] = m["normalisations"]
    res["lost"] = m["lost"]
    entries = m["entries"]
    for e in entries:
        e["line_start"] = int(e["line_start"])
        e["line_end"] = int(e["line_end"])
    fn_ranges = [e for e in entries if e["kind"] == "fn-range"]
    payloads = [e for e in entries if e["kind"] in ("spec", "invariant", "closure-spec", "ghost", "inner", "spec-assumed")]
    demoted = {(e["file"], e["item"], e.get("fn", "")) for e in entries if e["kind"] == "demoted"}
    assumed = {(e["file"], e["item"], e.get("fn", "")) for e in entries if e["kind"] == "fnattr" and "external_body" in e.get("text", "")}

    cache_dir = os.path.join(BUILD, "cache")
    v = None
    key = None
    if os.environ.get("VX_CACHE") == "1":
        os.makedirs(cache_dir, exist_ok=True)
        key = unit_hash(unit_dir)
        cp = os.path.join(cache_dir, key + ".json")
        if os.path.exists(cp):
            v = json.load(open(cp))
            v["cached"] = True
    if v is None:
        v = run_verus(unit_dir)
        if key:
            json.dump(v, open(os.path.join(cache_dir, key + ".json"), "w"))
    res["verus"] = {k: v[k] for k in ("rc", "wall_s", "cmd")}
    res["verus"]["cached"] = v.get("cached", False)
    vr = v["summary"].get("verification-results", {})
    res["verus"]["verified"] = vr.get("verified")
    res["verus"]["errors"] = vr.get("errors")
    times = v["summary"].get("times-ms", {})
    res["verus"]["smt_ms"] = (times.get("smt", {}) or {}).get("total") if isinstance(times.get("smt"), dict) else None
    res["verus"]["times"] = times if isinstance(times, dict) else {}

    def rel(fname):
        fname = fname.replace("\\", "/")
        if os.path.isabs(fname):
            try:
                return os.path.relpath(fname, unit_dir)
            except Exception:
                return fname
        return fname

    def fn_at(fname, line):
        f = rel(fname)
        srcname = "lib.rs" if f == "root.rs" else f
        hits = [e for e in fn_ranges if e["file"] == srcname and e["line_start"] <= line <= e["line_end"]]
        return hits[0] if hits else None

    def payload_at(fname, line):
        f = rel(fname)
        srcname = "lib.rs" if f == "root.rs" else f
        hits = [e for e in payloads if e["file"] == srcname and e["line_start"] <= line <= e["line_end"]]
        return hits[0] if hits else None

    hard_error = False
    for d in v["diags"]:
        if d.get("level") != "error":
            continue
        msg = d.get("message", "")
        if msg.startswith("aborting due to"):
            continue
        rendered = d.get("rendered", "")
        if "vx_canary" in rendered:
            res["canary_failed"] = True
            continue
        spans = d.get("spans", [])
        is_verif = any(msg.startswith(x) for x in VERIF_FAIL)
        fn = None
        clause = None
        for s in spans:
            f = fn_at(s["file_name"], s["line_start"])
            if f and fn is None:
                fn = f
            p = payload_at(s["file_name"], s["line_start"])
            if p and (clause is None or s.get("is_primary")):
                clause = {"vspec": p.get("vspec"), "vspec_line": p.get("vspec_line"), "kind": p["kind"],
                          "text": "\n".join(t["text"] for t in s.get("text", []))[:400]}
        rec = {"message": msg, "fn": (fn or {}).get("fn"), "item": (fn or {}).get("item"), "file": (fn or {}).get("file"),
               "has_stanza": (fn or {}).get("has_stanza") == "true",
               "tags": [t for t in ((fn or {}).get("tags", "") or "").split(",") if t],
               "clause": clause, "rendered": rendered[:3000],
               "primary": next(({"file": rel(s["file_name"]), "line": s["line_start"],
                                 "text": "\n".join(t["text"] for t in s.get("text", []))[:300]} for s in spans if s.get("is_primary")), None)}
        if is_verif and fn is not None:
            res["failures"].append(rec)
        else:
            res["rejected"].append(rec)
            if not is_verif:
                hard_error = True
    if hard_error:
        res["status"] = "rejected"
    elif v["summary"] == {} and v["rc"] != 0 and not res["failures"]:
        res["status"] = "rejected"
        res["rejected"].append({"message": "verus produced no result", "rendered": v["stderr_tail"]})

    failing = {(f["file"], f["item"], f["fn"]) for f in res["failures"]}
    for e in fn_ranges:
        k = (e["file"], e["item"], e.get("fn", ""))
        own = [p for p in payloads if p["file"] == e["file"] and p["item"] == e["item"] and p.get("fn") == e.get("fn")
               and p["kind"] in ("spec", "invariant", "closure-spec")]
        n = sum(clause_lines(p["text"]) for p in own)
        is_trait_emitter = e["item"].startswith("impl ToTokens for") or e["item"].startswith("impl IsEmpty for") or e["item"].startswith("impl Deref for")
        if is_trait_emitter and not any(p["kind"] == "spec" for p in own):
            n += 1  # the inherited trait-level postcondition
        res["fns"].append({"file": e["file"], "item": e["item"], "fn": e.get("fn", ""), "line": e["line_start"],
                           "tags": [t for t in (e.get("tags", "") or "").split(",") if t], "clauses": n,
                           "status": "demoted" if k in demoted else ("assumed" if k in assumed else ("failed" if k in failing else "verified")),
                           "has_stanza": e.get("has_stanza") == "true"})
    return res


# ---------------------------------------------------------------------------------- check

def known_findings():
    p = os.path.join(ROOT, "known_findings.json")
    if os.path.exists(p):
        return json.load(open(p))
    return {"known": [], "fixed": []}


def scan_assumptions(unit_dir):
    """mechanical scan for assume/admit/external_body/assume_specification/axiom in the unit"""
    counts = {"assume_specification": 0, "external_body": 0, "axiom fn": 0, "assume(": 0, "admit(": 0, "uninterp spec fn": 0, "external_type_specification": 0}
    where = {k: {} for k in counts}
    for dp, dn, fn in os.walk(unit_dir):
        for f in fn:
            if not f.endswith(".rs"):
                continue
            rp = os.path.relpath(os.path.join(dp, f), unit_dir)
            for ln in open(os.path.join(dp, f), errors="replace"):
                s = ln.strip()
                if s.startswith("//"):
                    continue
                for k in counts:
                    if k in s:
                        counts[k] += 1
                        where[k][rp] = where[k].get(rp, 0) + 1
    return counts, where


def check(pid, tier):
    t0 = time.time()
    spec = P.PROPS.get(pid)
    if spec is None:
        print("vx: property %s is not claimed (see MANIFEST.json not_applicable)" % pid)
        return 2
    seed = int(os.environ.get("VERIF_SEED", "0") or 0)
    OUT = os.environ.get("VX_SCRATCH_OUT", ROOT)
    # VX_SCRATCH_ID (development only): separate scratch build directories, so that several scratch copies of
    # the repository can be checked at the same time
    sid = os.environ.get("VX_SCRATCH_ID", "")
    unit_dir = os.path.join(BUILD, "units" if OUT == ROOT else "units-scratch" + ("-" + sid if sid else ""), pid)
    os.makedirs(os.path.join(OUT, "evidence"), exist_ok=True)
    os.makedirs(os.path.join(OUT, "replays"), exist_ok=True)
    for old in glob.glob(os.path.join(OUT, "replays", pid + "-*.json")):
        os.remove(old)

    violations = []   # dicts: {source, what, replay_payload, concrete}
    undecided = []    # hard: guards, harness cannot run -> exit 2
    soft = []         # part of the proof could not be attached to / accepted for the changed code -> reported, exit 0
    known_hits = []
    kf = known_findings()

    # ---------------- E1
    r1 = e1(unit_dir) if spec.get("e1", True) else None
    e1_fns = []
    if r1 is not None:
        if r1["status"] == "assemble-error":
            undecided.append("assembler: " + r1["message"])
        else:
            e1_fns = [f for f in r1["fns"] if pid in f["tags"]]
            if r1["status"] == "rejected":
                for rj in r1["rejected"][:5]:
                    soft.append("verus rejected the unit, no E1 obligation was decided: %s (%s)" % (rj["message"], (rj.get("primary") or {}).get("file")))
            if not r1["canary_failed"] and r1["status"] == "ok":
                undecided.append("vacuity guard: the canary `ensures false` was NOT refuted (inconsistent trusted layer?)")
            for l in r1["lost"]:
                m = re.search(r"\[tags=([^\]]*)\]", l)
                if m and pid in m.group(1).split(","):
                    soft.append(l)
            for f in r1["failures"]:
                if pid in f["tags"]:
                    violations.append({"source": "E1/verus", "what": "%s::%s %s — %s" % (f["file"], f["item"], f["fn"], f["message"]),
                                       "obligation": f, "concrete": None})
            if r1["status"] == "ok" and not e1_fns and spec.get("e1_required", True):
                undecided.append("vacuity guard: no function under contract carries tag %s" % pid)

    # thorough tier: the proofs must be stable under different SMT seeds (an unstable proof is
    # reported as undecided, never as a violation)
    if r1 is not None and tier == "thorough" and r1["status"] == "ok":
        base_fail = sorted({(f["file"], f["item"], f["fn"]) for f in r1["failures"]})
        stab = []
        for sd in (1, 2):
            v = run_verus(unit_dir, smt_seed=sd)
            n_err = (v["summary"].get("verification-results", {}) or {}).get("errors")
            stab.append({"smt_seed": sd, "errors": n_err, "wall_s": round(v["wall_s"], 1)})
            if n_err is None or n_err != r1["verus"].get("errors"):
                soft.append("proof instability: SMT seed %d gives %s errors, the default run %s" % (sd, n_err, r1["verus"].get("errors")))
        r1["stability"] = stab

    # ---------------- E3 (Kani)
    r3 = None
    e1_only = os.environ.get("VX_KILL_E1_ONLY") == "1"
    if spec.get("kani") and not e1_only:
        r3 = e3.run(spec["kani"], tier, log, pid)
        for h in r3["harnesses"]:
            if h["status"] == "FAILED":
                violations.append({"source": "E3/kani", "what": "%s: %s" % (h["name"], h["detail"][:300]), "obligation": h,
                                   "concrete": h.get("counterexample")})
            elif h["status"] != "SUCCESSFUL":
                undecided.append("kani %s: %s" % (h["name"], h["status"]))

    # ---------------- E2 (bounded contract replay)
    r2 = None
    if spec.get("e2", True) and not e1_only:
        r2 = e2.run(pid, tier, seed, log)
        if r2["status"] != "ok":
            undecided.append("replay harness: " + r2.get("message", r2["status"]))
        else:
            conf = r2.get("conformance") or {}
            if conf.get("facts_failed"):
                undecided.append("trusted layer: %d assumed fact(s) of specs/prelude.rs failed their conformance test: %s" % (conf["facts_failed"], ", ".join(conf.get("failed", [])[:5])))
            for c in r2["contracts"]:
                if c.get("domain", "").startswith("NOT REPLAYED"):
                    soft.append("bounded replay %s: %s" % (c["name"], c["domain"][:300]))
                for fl in c["failures"]:
                    ident = "%s:%s" % (c["name"], fl.get("class", ""))
                    hit = next((k for k in kf.get("known", []) if k["id"] == ident), None)
                    if hit is not None:
                        known_hits.append((hit, fl))
                    else:
                        violations.append({"source": "E2/replay", "what": "%s: %s  [input: %s]" % (c["name"], fl["message"][:400], fl.get("input", "")[:300]),
                                           "obligation": {"contract": c["name"], "function": c.get("function")},
                                           "concrete": fl})

    # attach concrete inputs from E2 to E1 failures of the same function where available
    # ---------------- verdict
    wall = time.time() - t0
    n_viol = 0
    lines = []
    seen_known = set()
    for hit, fl in known_hits:
        if hit["id"] in seen_known:
            continue
        seen_known.add(hit["id"])
        lines.append("KNOWN-FINDING: property=%s %s [%s] e.g. %s" % (pid, hit["what"], hit["id"], fl.get("input", "")[:200]))
    for i, vv in enumerate(violations):
        n_viol += 1
        path = os.path.join(OUT, "replays", "%s-%d.json" % (pid, i + 1))
        payload = {"property": pid, "source": vv["source"], "failed_obligation": vv["what"], "detail": vv["obligation"],
                   "failing_input": vv["concrete"], "repo": REPO,
                   "how_to_replay": "./vx replay %s" % path}
        json.dump(payload, open(path, "w"), indent=1, default=str)
        suffix = "" if vv["concrete"] else " no-failing-input-found"
        lines.append("VIOLATION property=%s replay=%s%s" % (pid, path, suffix))
        log("   violated: [%s] %s" % (vv["source"], vv["what"]))

    # a unit that Verus rejected as a whole is only tolerable if the bounded replay could run
    if r1 is not None and r1["status"] == "rejected" and (r2 is None or r2.get("status") != "ok"):
        undecided.extend(soft)
        soft = []
    ev = build_evidence(pid, spec, tier, seed, r1, r2, r3, e1_fns, n_viol, undecided + soft, known_hits, wall, unit_dir)
    json.dump(ev, open(os.path.join(OUT, "evidence", pid + ".json"), "w"), indent=1, default=str)

    for ln in lines:
        print(ln)
    if n_viol:
        print("vx: %s VIOLATED (%d obligation(s)); %.1fs" % (pid, n_viol, wall))
        return 1
    if undecided:
        for u in undecided:
            print("UNDECIDED: " + u[:500])
        print("vx: %s undecided (machinery could not decide; not a verdict); %.1fs" % (pid, wall))
        return 2
    for u in soft:
        print("UNDECIDED (partial): " + u[:500])
    if soft:
        print("vx: %s: no violation found, but %d part(s) of the proof could not be attached to this tree (listed above and in the evidence)" % (pid, len(soft)))
    print("vx: %s holds: E1 %d/%d clauses in %d functions, E2 %s cases, E3 %s; %.1fs" % (
        pid, ev["coverage"]["discharged"], ev["coverage"]["obligations"], len(e1_fns),
        ev["coverage"].get("bounded_cases", 0), ev["coverage"].get("kani_harnesses", 0), wall))
    return 0


def build_evidence(pid, spec, tier, seed, r1, r2, r3, e1_fns, n_viol, undecided, known_hits, wall, unit_dir):
    assumed_fns = [f for f in e1_fns if f["status"] == "assumed"]
    demoted_fns = [f for f in e1_fns if f["status"] == "demoted"]
    e1_fns = [f for f in e1_fns if f["status"] not in ("assumed", "demoted")]
    obligations = sum(f["clauses"] for f in e1_fns)
    discharged = sum(f["clauses"] for f in e1_fns if f["status"] == "verified")
    kani_h = []
    if r3:
        for h in r3["harnesses"]:
            obligations += h.get("checks", 1)
            if h["status"] == "SUCCESSFUL":
                discharged += h.get("checks", 1)
            kani_h.append({"name": h["name"], "status": h["status"], "checks": h.get("checks"), "seconds": h.get("seconds"), "bound": h.get("bound")})
    cov = {
        "obligations": obligations,
        "discharged": discharged,
        "checker_cmd": (r1 or {}).get("verus", {}).get("cmd", "") or "(no E1 part)",
        "trusted_base": P.TRUSTED_BASE,
        "functions_under_contract": [{"fn": "%s :: %s :: %s" % (f["file"], f["item"], f["fn"]), "repo_location": "entrait_macros/src/%s" % f["file"],
                                      "clauses": f["clauses"], "status": f["status"], "backend": "verus"} for f in e1_fns],
        "assumed_contracts": [{"fn": "%s :: %s :: %s" % (f["file"], f["item"], f["fn"]), "clauses": f["clauses"],
                               "note": "external_body: the contract is assumed here (callers are verified against it); its content is covered by the bounded replay only"} for f in assumed_fns],
        "undecided_functions": [{"fn": "%s :: %s :: %s" % (f["file"], f["item"], f["fn"]), "clauses": f["clauses"],
                                 "note": "demoted on this tree (anchor lost or construct rejected): not verified, not counted"} for f in demoted_fns],
        "kani_harnesses": len(kani_h),
        "kani": kani_h,
        "undecided": undecided,
    }
    if r1 and "verus" in r1:
        cov["verus"] = {k: r1["verus"].get(k) for k in ("verified", "errors", "wall_s", "cached")}
        cov["verus"]["note"] = "`verified` counts every Verus function in the unit (all properties share one unit); `errors` includes the deliberately failing vacuity canary"
        t = r1["verus"].get("times", {})
        cov["solver_time_ms"] = {"smt": t.get("smt"), "total-verify": t.get("verify"), "total": t.get("total")}
        cov["normalisations"] = r1.get("normalisations", [])
        cov["lost_anchors"] = r1.get("lost", [])
        cov["guards"] = {"canary_refuted": r1.get("canary_failed"), "obligations_nonzero": obligations > 0, "smt_seed_stability": r1.get("stability")}
        if os.path.isdir(unit_dir):
            counts, where = scan_assumptions(unit_dir)
            cov["assumption_scan"] = {"counts": counts, "outside_prelude": {k: {f: n for f, n in w.items() if f != "vx.rs"} for k, w in where.items()}}
    samples = []
    for f in e1_fns[:3]:
        samples.append({"kind": "contract", "function": "%s :: %s :: %s" % (f["file"], f["item"], f["fn"]), "status": f["status"]})
    if r2 and r2.get("status") == "ok":
        cov["bounded"] = [{"contract": c["name"], "function": c.get("function"), "domain": c.get("domain"), "bound": c.get("bound"),
                           "cases": c["cases"], "distinct_nontrivial": c.get("distinct"), "exhaustive_within_bound": c.get("exhaustive", True),
                           "failures": len(c["failures"]), "label": "bounded — never counted as proved"} for c in r2["contracts"]]
        cov["bounded_cases"] = sum(c["cases"] for c in r2["contracts"])
        cov["evaluations"] = cov["bounded_cases"]
        cov["distinct_nontrivial"] = sum(c.get("distinct", 0) for c in r2["contracts"])
        cov["rule"] = "bounded contract replay: exhaustive enumeration of each contract's stated domain; distinct = distinct generated inputs (by token text)"
        cov["conformance"] = r2.get("conformance")
        for c in r2["contracts"][:4]:
            for s in c.get("samples", [])[:2]:
                samples.append({"kind": "bounded-case", "contract": c["name"], "input": s})
    if known_hits:
        cov["known_findings"] = [{"id": h["id"], "what": h["what"]} for h, _ in known_hits]
    cov["samples"] = samples or [{"kind": "none"}]
    cov["explanation"] = spec.get("explanation", "")
    level = spec.get("level", "proof")
    if level == "proof" and obligations == 0:
        level = "other"
    return {
        "property_id": pid, "tier": tier, "seed": seed, "level": level, "coverage": cov,
        "assumptions": P.ASSUMPTIONS + spec.get("assumptions", []),
        "wall_s": round(wall, 2), "violations": n_viol,
    }


def kill(only=None, e1_only=True):
    """Kill suite: each stored source mutation is applied to a scratch copy of the repository sources
    and must turn the check of its property red (E1 alone unless e1_only is False)."""
    muts = json.load(open(os.path.join(ROOT, "kill", "mutants.json")))
    scratch = "/var/tmp/vx-kill-%d" % os.getpid()
    results = []
    try:
        for m in muts:
            if only and m["id"] not in only and m["prop"] not in only:
                continue
            if os.path.isdir(scratch):
                shutil.rmtree(scratch)
            os.makedirs(scratch + "/entrait_macros")
            shutil.copytree(os.path.join(REPO, "entrait_macros", "src"), scratch + "/entrait_macros/src")
            p = os.path.join(scratch, "entrait_macros", "src", m["file"])
            t = open(p).read()
            reps = [(m["old"], m["new"])] + [(x["old"], x["new"]) for x in m.get("also", [])]
            ok = True
            for old, new in reps:
                if t.count(old) != 1:
                    ok = False
                t = t.replace(old, new, 1)
            t += m.get("extra", "")
            if not ok:
                results.append((m, "STALE (pattern not found exactly once)"))
                continue
            open(p, "w").write(t)
            env = dict(os.environ, VX_REPO=scratch, VX_KILL_E1_ONLY="1" if e1_only else "0", VX_SCRATCH_OUT=scratch + "/out")
            p2 = subprocess.run([os.path.join(ROOT, "vx"), "check", m["prop"]], env=env, stdout=subprocess.PIPE, stderr=subprocess.PIPE, text=True)
            expect = m.get("expect", [1])
            verdict = "killed" if p2.returncode in expect else ("SURVIVED (exit %d)" % p2.returncode)
            results.append((m, verdict))
            log("  %s %-4s %-28s %s  -- %s" % (m["id"], m["prop"], m["file"], verdict, m["why"]))
    finally:
        if os.path.isdir(scratch):
            shutil.rmtree(scratch)
    bad = [r for r in results if r[1] != "killed"]
    json.dump([{"id": m["id"], "prop": m["prop"], "file": m["file"], "why": m["why"], "result": v} for m, v in results],
              open(os.path.join(ROOT, "kill", "last_result.json"), "w"), indent=1)
    print("kill suite: %d mutants, %d killed, %d not" % (len(results), len(results) - len(bad), len(bad)))
    return 0 if not bad else 1


def replay(path):
    d = json.load(open(path))
    print("replay of %s: property %s, source %s" % (path, d["property"], d["source"]))
    print("failed obligation:", d["failed_obligation"])
    if d.get("failing_input"):
        return e2.replay_input(d, log)
    print("no concrete failing input was recorded (verifier gave none); re-running the check that produced it")
    return check(d["property"], "quick")


def main(argv):
    if not argv:
        print(__doc__ or "usage: vx setup|check|replay|all")
        return 2
    cmd = argv[0]
    tier = os.environ.get("VERIF_TIER", "quick")
    if "--tier" in argv:
        tier = argv[argv.index("--tier") + 1]
    if cmd == "setup":
        return setup()
    if cmd == "check":
        return check(argv[1], tier)
    if cmd == "replay":
        return replay(argv[1])
    if cmd == "kill":
        return kill([a for a in argv[1:] if not a.startswith("--")] or None, e1_only="--full" not in argv)
    if cmd == "all":
        rc = 0
        os.environ["VX_CACHE"] = "1"
        for pid in sorted(P.PROPS):
            r = check(pid, tier)
            rc = max(rc, r)
        return rc
    print("unknown command", cmd)
    return 2
