"""Per-property configuration of the checks. E1 obligations are selected by the @tags of the
contract stanzas in contracts/*.vspec; E2 contracts by the `props` list of each replay contract."""

TRUSTED_BASE = [
    "Verus 0.2026.09.13 + Z3 (E1), Kani 0.68 + CBMC 6.11 (E3), rustc",
    "specs/prelude.rs: assumed contracts (assume_specification / axioms / uninterpreted token content) for quote::ToTokens, syn tokens, Ident::new, Ident == Ident / Ident == \"text\" (compare by text), LitBool::new, Lifetime::new, Punctuated (first/len/is_empty/iter/pairs), Bracket/Paren/Brace::surround, syn::Error::new, Box::as_ref, slice/Punctuated length bounds",
    "normalisations N1..N7 of DESIGN.md section 2.1 (listed per run under coverage.normalisations); N2 relies on Rust's scope-end drop",
    "the splicer tools/assemble (erasure-checked: removing every insertion gives back the normalised repository text)",
]

ASSUMPTIONS = [
    "A0 semantic bridge: token-level facts imply the behavioural statement through the Rust reference (not formalised by any installed tool)",
    "A-dep: contracts of syn 2.0.119 / quote 1.0.47 / proc-macro2 1.0.107 / core are assumed (specs/prelude.rs), conformance-tested by the replay harness, not proved",
    "A-N2: `impl Drop for Punctuator` is verified as an explicit `vx_drop()` call at the end of the declaring block (what MIR building does)",
    "A-arith: list lengths fit: axiom_punctuated_len, axiom_slice_len, axiom_total_bounds_fit (machine arithmetic of Punctuator.position otherwise checked for overflow)",
    "A-quote: quote!/parse_quote!/ToTokens impls of syn types are not verified; functions built on them are covered only by the bounded replay (labelled bounded)",
    "unsafe code: none (entrait_macros is #![forbid(unsafe_code)]; the unit drops the lint attribute only because Verus' own expansion of assume_specification uses unsafe)",
    "termination of the verified functions is checked by Verus only where it demands decreases clauses; Kani harnesses do not check termination",
]


def prop(level="proof", kani=None, e2=True, e1=True, explanation="", assumptions=None, e1_required=True):
    return {"level": level, "kani": kani, "e2": e2, "e1": e1, "explanation": explanation,
            "assumptions": assumptions or [], "e1_required": e1_required}


PROPS = {
    "C01": prop(explanation="E1: receiver token, .await iff async, SelfArgComma; E2: delegating-item contract (own ident, args in order) over enumerated signatures"),
    "C05": prop(explanation="E1: nested attribute tokens, concrete branches of SelfTy / impl params / where clause; E2: concrete type shapes, diagnostics for mod / impl"),
    "C13": prop(explanation="E1: TraitVisibility emitter, is_relative_path; E2: requested visibility on trait and re-export, delegation-target trait visibility"),
    "C18": prop(explanation="E1: SubAttribute re-emission; E2: attribute placement on fn / trait / impl / parameters / mirrored method attributes"),
    "C02": prop(explanation="E1: verbatim re-emission by the input.rs ToTokens impls (added as proved); E2: expansion starts with / contains the original item tokens, over enumerated module and impl bodies", e1_required=False),
    "C03": prop(explanation="only the second sentence (same call type) is decided; 'compiles' is a fact about rustc. E1: ArgumentsGenerator, trait where clause, TraitGenerics; E2: signature conversion and generics lifting over enumerated generic lists"),
    "C12": prop(explanation="E1: future_send(), opt_dot_await, contains_async_trait, AsyncTraitParams; E2: make_trait_fn_sig (Output type, Send, ?Send), async_trait detection and re-application, incl. delegation-target traits"),
    "C04": prop(explanation="E1: impl generics, where clause over all declared bounds of all trait fns, Impl path, self type, mockable(); E2: bound collection and impl assembly"),
    "C06": prop(explanation="E2: forwarding call per delegation kind, provider bound on T, fixed Sync + 'static header (E1 contracts on ImplWhereClause / DelegatingMethod are added as they are proved)", e1_required=False),
    "C07": prop(explanation="E1: ArgumentsGenerator (EntraitT first), SelfTy / where clause for impl blocks; E2: target trait generation, selector trait, inversion call, impl-block expansion", e1_required=True),
    "C08": prop(explanation="E1: TraitVisibility (absent -> pub(super), relative paths re-based one level up), is_relative_path, filter_pub_fn; E2: classification of module items over the item alphabet", e1_required=True),
    "C09": prop(explanation="E1: Supertraits emitter, trait where clause; E2: structural comparison of input trait and emitted trait", e1_required=True),
    "C10": prop(kani=["set_fallbacks_1", "set_fallbacks_2", "modifier_entrait", "modifier_entrait_export", "modifier_entrait_unimock", "modifier_entrait_export_unimock"], explanation="E1: option kernel, cfg_attr(test, ..) gating, emptiness of the unimock params; E3: set_fallbacks; E2: attribute selection over the full option lattice"),
    "C11": prop(explanation="E1: exact unimock attribute parameters incl. unmock_with entries"),
    "C15": prop(explanation="partial: E1 proves panic-freedom and the specific Err of the functions under contract; E2 replays the documented misuses, odd items, malformed option lists and parameter patterns (no panic, output re-parses)", e1_required=False),
    "C16": prop(level="other", e1=True, e1_required=False, explanation="E1: the orchestration fix_fn_param_idents is proved from the contracts of its three stages (one plain identifier per parameter, none shadowing the function, positions and types untouched); the stages themselves (fix_ident_conflicts, lift_inner_pat_idents, autogenerate_for_non_idents) are string / HashSet / visit_mut code outside Verus' reach: their contracts are assumed in E1 and evaluated on the real functions by the bounded replay (c16_stage_contracts), as is the whole naming contract, exhaustively to the property's own small-scope bound (c16_param_names)"),
    "C17": prop(kani=["set_fallbacks_1", "set_fallbacks_2", "modifier_entrait", "modifier_entrait_export", "modifier_entrait_unimock", "modifier_entrait_export_unimock"], explanation="E1: option accessors (defaults of the table); E3: set_fallbacks; E2: parsers - bare = true, false = absent, order independence, accepted sets, macro variants as shorthands"),
    "C19": prop(explanation="E1: absolute paths of every emitter under contract"),
}

NOT_APPLICABLE = {
    "C14": "zero-cost: a statement about heap allocations of the rustc-compiled expansion; no pre/postcondition on a function of the macro can express an allocation count of another program (DESIGN.md section 4)",
    "C20": "purity across compiler processes / hash seeds / invocation order: a whole-history property over ambient state; contracts give per-call functional determinism only for the functions under contract, and no frame condition covers the unverified assemblers, syn, quote and HashSet (DESIGN.md section 4)",
}

_NOTE = ("Trusted: Verus/Z3, Kani/CBMC, rustc; the assumed dependency contracts in specs/prelude.rs (conformance-tested, not proved); "
         "normalisations N1-N7; A0 (token-level facts imply the behavioural statement via the Rust reference). "
         "Functions built on quote!/parse_quote!/ParseStream are covered by bounded replay only, labelled bounded, never counted as proved.")


def _t(text, technique=None, note=None):
    d = {"text": text, "note": note or _NOTE}
    if technique:
        d["technique"] = technique
    return d


_V = "Verus contracts on the real function text"
MANIFEST_TEXT = {
    "C01": _t("Proof (Verus, unbounded) that the pieces of the delegating body are what the property says: `self ,` receiver argument, `.await` iff the source fn was async, async flag taken from the signature, receiver-generation kind; the way gen_delegating_fn_item puts them together (own ident, declared parameters in order, one call) is a bounded stand-in over enumerated signatures.", _V + " + bounded contract replay of the quote!-based assembler"),
    "C02": _t("Proof that every ToTokens impl of input.rs re-emits attributes, visibility, signature and raw body / raw tokens in order and nothing else (unbounded over item lists); parse-then-emit and the assemblers' prefix property are a bounded stand-in over an item alphabet.", _V + " + bounded contract replay of the parsers and assemblers"),
    "C03": _t("Only the second sentence (same call type) is decided; 'expands to compiling code' is a fact about rustc. Proof for generics lifting (deps_with_generics), argument / where-clause emitters, tidy_generics; signature conversion is a bounded stand-in.", _V + " + bounded contract replay"),
    "C04": _t("Proof, for every list of trait fns with every list of bounds, that the impl where clause is exactly `Self: B1 + .. + Bn` over all declared bounds in order (absent iff none), the impl generics are `EntraitT: ::core::marker::Sync [+ Send] + 'static`, the self type follows mockable(); how bounds are collected from the signature and the header assembled is a bounded stand-in.", _V + " (nested loops, Punctuator invariant) + bounded contract replay"),
    "C05": _t("Proof that the dependency kind is decided by the first parameter type after peeling references / parentheses, that the first concrete dependency selects leaf-trait mode for a single fn and the two documented diagnostics for mod / impl block, and that the nested attribute is `::entrait::entrait(unimock = false, mockall = false)`; attachment in gen_trait_def is a bounded stand-in.", _V + " + bounded contract replay"),
    "C06": _t("Proof of the exact bounds on T per delegation kind, of the delegating method shell (mirrored attributes, signature, `{ call [.await] }`) and of analyze_trait (one TraitFn per method, in order, unchanged); the forwarding call text per kind is a bounded stand-in.", _V + " + bounded contract replay"),
    "C07": _t("Proof of the Static / Dynamic bounds, `EntraitT` as first trait argument, the impl block's own type as self type and `Impl<EntraitT>: bounds` for further dependencies; target-trait generation and the inversion call are a bounded stand-in.", _V + " + bounded contract replay"),
    "C08": _t("Proof of filter_pub_fn and of the `pub(super)` rule of TraitVisibility; classification of module items (which items are visible fns with a body) is a bounded stand-in over an item alphabet.", _V + " + bounded contract replay of ModItem::parse"),
    "C09": _t("Proof that analyze_trait carries attributes, visibility, name, generics, where predicates, supertraits and every method's attributes and signature unchanged; re-emission is a bounded stand-in. Three known findings (default bodies, associated types, `unsafe`).", _V + " + bounded contract replay"),
    "C10": _t("Proof of the option kernel, of `#[P]` vs `#[cfg_attr(test, P)]` vs nothing in ExportGatedAttr, of the emptiness rule of the unimock parameters; Kani proof (complete for N = 1, 2) of set_fallbacks and of the four entry-point option modifiers; the attribute selection in gen_trait_def is checked over the full 1152-point lattice (bounded stand-in, exhaustive).", _V + " + Kani harnesses on extracted text + exhaustive lattice replay"),
    "C11": _t("Proof of the exact unimock attribute parameters (prefix, api / [api], unmock_with entries `f` / `_` / `f(a, b)` in trait-method order, omitted for traits and empty modules), unbounded over fn lists and parameter lists. What unimock does with them is a dependency's behaviour.", _V + " (nested closures and two Punctuator loops)"),
    "C12": _t("Proof of future_send(), `.await` emission, async_trait detection, the AsyncTraitParams path; the async rewrite of make_trait_fn_sig (Output type, Send unless ?Send, async_trait kept) is a bounded stand-in over input modes x return types.", _V + " + bounded contract replay"),
    "C13": _t("Proof of TraitVisibility (exactly the requested visibility, `pub(super)` for private traits of mod / impl inputs); attribute parsing, the re-export and the delegation-target trait visibility are a bounded stand-in.", _V + " + bounded contract replay"),
    "C15": _t("Partial. Proof that the functions under contract cannot panic (Verus checks every panic!, unwrap, overflow under the stated preconditions) and return the documented diagnostics (analyze_fn_deps, extract_deps_from_type, detect_trait_dependency_mode, analyze_trait); parsers and assemblers are replayed over a catalogue of misuses, odd items, malformed option lists and parameter patterns (bounded).", _V + " + bounded contract replay"),
    "C16": _t("Mostly bounded: the naming contract of fix_fn_param_idents is evaluated on the real function over every pattern list up to length 4 (6 thorough) of the property's own alphabet - which is the property's own quantifier. Deductive part: the orchestration of the three stages is proved (Verus) to establish 'one plain identifier per parameter, none shadowing the function, positions and types untouched' from the stages' contracts, which are assumed in the proof and replayed on the real stage functions (bounded). Not counted as a proof of the property.", "bounded contract replay (exhaustive small scope) + deductive proof of the stage orchestration under assumed (replayed) stage contracts; strings, HashSet and visit_mut are outside Verus' reach"),
    "C17": _t("Proof of the option accessors (defaults of the table); Kani proof of the variant fallbacks; parsers (bare = true, false = absent, order independence, accepted sets, variants as shorthands) are a bounded stand-in, exhaustive over the stated option sets.", _V + " + Kani harnesses + bounded contract replay of the parsers"),
    "C18": _t("Proof that sub-attributes are re-emitted verbatim, that trait-method attributes are mirrored first and in order, that fn / mod / impl inputs start with an empty attribute list; placement on fn / trait / impl / parameters is a bounded stand-in. One known finding (cfg-disabled fns).", _V + " + bounded contract replay"),
    "C19": _t("Proof that every emitter under contract spells macro-owned references absolutely (`::entrait::Impl<EntraitT>`, `::core::marker::{Sync,Send}`, `::core::convert::AsRef`, `::core::borrow::Borrow`, `::entrait::__unimock::unimock`, `::entrait::__async_trait::async_trait`, `::mockall::automock`, `::entrait::entrait`); quote!-emitted paths are a bounded stand-in. 'Compiles in a hostile scope / no_std' is rustc's.", _V + " + bounded contract replay"),
}
