"""Per-property configuration of the checks. E1 obligations are selected by the @tags of the
contract stanzas in contracts/*.vspec; E2 contracts by the `props` list of each replay contract."""

TRUSTED_BASE = [
    "Verus 0.2026.09.13 + Z3 (E1), Kani 0.68 + CBMC 6.11 (E3), rustc",
    "specs/prelude.rs: assumed contracts (assume_specification / axioms / uninterpreted token content) for quote::ToTokens, syn tokens, Ident::new, LitBool::new, Lifetime::new, Punctuated (first/len/is_empty/iter/pairs), Bracket/Paren/Brace::surround, syn::Error::new, Box::as_ref, slice/Punctuated length bounds",
    "normalisations N1..N7 of DESIGN.md section 2.1 (listed per run under coverage.normalisations); N2 relies on Rust's scope-end drop",
    "the splicer tools/assemble (erasure-checked: removing every insertion gives back the normalised repository text)",
]

ASSUMPTIONS = [
    "A0 semantic bridge: token-level facts imply the behavioural statement through the Rust reference (not formalised by any installed tool)",
    "A-dep: contracts of syn 2.0.119 / quote 1.0.47 / proc-macro2 1.0.107 / core are assumed (specs/prelude.rs), conformance-tested by the replay harness, not proved",
    "A-N2: `impl Drop for Punctuator` is verified as an explicit `vx_drop()` call at the end of the declaring block (what MIR building does)",
    "A-arith: list lengths fit: axiom_punctuated_len, axiom_slice_len, axiom_total_bounds_fit (machine arithmetic of Punctuator.position otherwise checked for overflow)",
    "A-quote: quote!/parse_quote!/ToTokens impls of syn types are not verified; functions built on them are covered only by the bounded replay (labelled bounded)",
    "unsafe code: none (entrait_macros is #![forbid(unsafe_code)]; the unit drops the lint attribute only because Verus' own expansion of assume_specification uses unsafe)",
    "termination of the verified functions is checked by Verus only where it demands decreases clauses; Kani harnesses do not check termination",
]


def prop(level="proof", kani=None, e2=True, e1=True, explanation="", assumptions=None, e1_required=True):
    return {"level": level, "kani": kani, "e2": e2, "e1": e1, "explanation": explanation,
            "assumptions": assumptions or [], "e1_required": e1_required}


PROPS = {
    "C01": prop(explanation="E1: receiver token, .await iff async, SelfArgComma; E2: delegating-item contract (own ident, args in order) over enumerated signatures"),
    "C05": prop(explanation="E1: nested attribute tokens, concrete branches of SelfTy / impl params / where clause; E2: concrete type shapes, diagnostics for mod / impl"),
    "C13": prop(explanation="E1: TraitVisibility emitter; E2: requested visibility on trait and re-export, delegation-target trait visibility"),
    "C18": prop(explanation="E1: SubAttribute re-emission; E2: attribute placement on fn / trait / impl / parameters / mirrored method attributes"),
    "C02": prop(explanation="E1: verbatim re-emission by the input.rs ToTokens impls (added as proved); E2: expansion starts with / contains the original item tokens, over enumerated module and impl bodies", e1_required=False),
    "C03": prop(explanation="only the second sentence (same call type) is decided; 'compiles' is a fact about rustc. E1: ArgumentsGenerator, trait where clause, TraitGenerics; E2: signature conversion and generics lifting over enumerated generic lists"),
    "C12": prop(explanation="E1: future_send(), opt_dot_await, contains_async_trait, AsyncTraitParams; E2: make_trait_fn_sig (Output type, Send, ?Send), async_trait detection and re-application, incl. delegation-target traits"),
    "C04": prop(explanation="E1: impl generics, where clause over all declared bounds of all trait fns, Impl path, self type, mockable(); E2: bound collection and impl assembly"),
    "C06": prop(explanation="E2: forwarding call per delegation kind, provider bound on T, fixed Sync + 'static header (E1 contracts on ImplWhereClause / DelegatingMethod are added as they are proved)", e1_required=False),
    "C07": prop(explanation="E1: ArgumentsGenerator (EntraitT first), SelfTy / where clause for impl blocks; E2: target trait generation, selector trait, inversion call, impl-block expansion", e1_required=True),
    "C08": prop(explanation="E1: TraitVisibility (pub(super) rule), filter_pub_fn; E2: classification of module items over the item alphabet", e1_required=True),
    "C09": prop(explanation="E1: Supertraits emitter, trait where clause; E2: structural comparison of input trait and emitted trait", e1_required=True),
    "C10": prop(kani=["set_fallbacks_1", "set_fallbacks_2", "modifier_entrait", "modifier_entrait_export", "modifier_entrait_unimock", "modifier_entrait_export_unimock"], explanation="E1: option kernel, cfg_attr(test, ..) gating, emptiness of the unimock params; E3: set_fallbacks; E2: attribute selection over the full option lattice"),
    "C11": prop(explanation="E1: exact unimock attribute parameters incl. unmock_with entries"),
    "C15": prop(explanation="partial: E1 proves panic-freedom and the specific Err of the functions under contract; E2 replays the documented misuses, odd items, malformed option lists and parameter patterns (no panic, output re-parses)", e1_required=False),
    "C16": prop(level="other", e1=False, e1_required=False, explanation="bounded only: fix_fn_param_idents is string / HashSet / visit_mut code outside Verus' reach; the contract is evaluated exhaustively to the property's own small-scope bound"),
    "C17": prop(kani=["set_fallbacks_1", "set_fallbacks_2", "modifier_entrait", "modifier_entrait_export", "modifier_entrait_unimock", "modifier_entrait_export_unimock"], explanation="E1: option accessors (defaults of the table); E3: set_fallbacks; E2: parsers - bare = true, false = absent, order independence, accepted sets, macro variants as shorthands"),
    "C19": prop(explanation="E1: absolute paths of every emitter under contract"),
}

NOT_APPLICABLE = {
    "C14": "zero-cost: a statement about heap allocations of the rustc-compiled expansion; no pre/postcondition on a function of the macro can express an allocation count of another program (DESIGN.md section 4)",
    "C20": "purity across compiler processes / hash seeds / invocation order: a whole-history property over ambient state; contracts give per-call functional determinism only for the functions under contract, and no frame condition covers the unverified assemblers, syn, quote and HashSet (DESIGN.md section 4)",
}

MANIFEST_TEXT = {}
