"""E3: Kani / CBMC harnesses over text extracted mechanically from the repository.

The harness crate build/kani/ is regenerated on every run:
  * `fn set_fallbacks` (lib.rs), `struct SpanOpt`, `impl SpanOpt`, `struct FutureSend`, `struct Opts` (opt.rs) are copied
    verbatim (vx-assemble extract); `struct MockApiIdent` is replaced by a unit stand-in so that the syn::Ident it wraps
    (a String inside proc-macro2) does not have to be symbolically executed — the harnesses use `mock_api: None`
    and `Some(MockApiIdent)` as the two abstract values;
  * the closures passed to `invoke` by the four entry points are copied verbatim (vx-assemble extract-closure).
set_fallbacks is loop-bounded by its const parameter N; the harnesses instantiate N = 1 and N = 2 (the only
instantiations in lib.rs) with `#[kani::unwind(3)]` and unwinding assertions on, which is complete for them.
"""
import os, re, subprocess, time, shutil, json

ROOT = os.path.dirname(os.path.dirname(os.path.abspath(__file__)))
REPO = os.environ.get("VX_REPO", "/repo")
SRC = os.path.join(REPO, "entrait_macros", "src")
BUILD = os.path.join(ROOT, "build") if not os.environ.get("VX_SCRATCH_OUT") else os.path.join(ROOT, "build", "scratch" + ("-" + os.environ["VX_SCRATCH_ID"] if os.environ.get("VX_SCRATCH_ID") else ""))
ASSEMBLE = os.path.join(ROOT, "build", "assemble", "debug", "vx-assemble")
ENV = dict(os.environ, CARGO_NET_OFFLINE="true")

HARNESS = r'''
#[cfg(kani)]
mod proofs {
    use super::*;
    use super::opt::*;

    fn any_opt() -> Option<SpanOpt<bool>> {
        if kani::any() { Some(SpanOpt(kani::any(), proc_macro2::Span::call_site())) } else { None }
    }
    fn val(o: &Option<SpanOpt<bool>>) -> Option<bool> { o.map(|x| x.0) }

    /// contract of set_fallbacks: Some(x) stays Some(x); None becomes Some(true); nothing else
    #[kani::proof]
    #[kani::unwind(3)]
    fn set_fallbacks_1() {
        let mut a = any_opt();
        let a0 = val(&a);
        set_fallbacks([&mut a]);
        assert!(val(&a) == Some(a0.unwrap_or(true)));
    }

    #[kani::proof]
    #[kani::unwind(3)]
    fn set_fallbacks_2() {
        let mut a = any_opt();
        let mut b = any_opt();
        let (a0, b0) = (val(&a), val(&b));
        set_fallbacks([&mut a, &mut b]);
        assert!(val(&a) == Some(a0.unwrap_or(true)));
        assert!(val(&b) == Some(b0.unwrap_or(true)));
    }

    fn any_opts() -> Opts {
        Opts {
            default_span: proc_macro2::Span::call_site(),
            no_deps: any_opt(),
            debug: any_opt(),
            export: any_opt(),
            future_send: if kani::any() { Some(SpanOpt(FutureSend(kani::any()), proc_macro2::Span::call_site())) } else { None },
            mock_api: if kani::any() { Some(MockApiIdent) } else { None },
            unimock: any_opt(),
            mockall: any_opt(),
        }
    }
    struct Snap { no_deps: Option<bool>, debug: Option<bool>, export: Option<bool>, fs: Option<bool>, api: bool, unimock: Option<bool>, mockall: Option<bool> }
    fn snap(o: &Opts) -> Snap {
        Snap { no_deps: val(&o.no_deps), debug: val(&o.debug), export: val(&o.export), fs: o.future_send.map(|x| (x.0).0), api: o.mock_api.is_some(), unimock: val(&o.unimock), mockall: val(&o.mockall) }
    }
    /// frame + effect of an entry point's option modifier: `export` / `unimock` get the fallback `true`
    /// iff the variant says so, explicit values win, every other option is untouched
    fn check_modifier(f: impl FnOnce(&mut Opts), sets_export: bool, sets_unimock: bool) {
        let mut o = any_opts();
        let s0 = snap(&o);
        f(&mut o);
        let s1 = snap(&o);
        assert!(s1.no_deps == s0.no_deps && s1.debug == s0.debug && s1.fs == s0.fs && s1.api == s0.api && s1.mockall == s0.mockall);
        assert!(s1.export == if sets_export { Some(s0.export.unwrap_or(true)) } else { s0.export });
        assert!(s1.unimock == if sets_unimock { Some(s0.unimock.unwrap_or(true)) } else { s0.unimock });
    }
    #[kani::proof]
    #[kani::unwind(3)]
    fn modifier_entrait() { check_modifier(@CLOSURE_entrait@, false, false); }
    #[kani::proof]
    #[kani::unwind(3)]
    fn modifier_entrait_export() { check_modifier(@CLOSURE_entrait_export@, true, false); }
    #[kani::proof]
    #[kani::unwind(3)]
    fn modifier_entrait_unimock() { check_modifier(@CLOSURE_entrait_unimock@, false, true); }
    #[kani::proof]
    #[kani::unwind(3)]
    fn modifier_entrait_export_unimock() { check_modifier(@CLOSURE_entrait_export_unimock@, true, true); }
}
'''

ALL = ["set_fallbacks_1", "set_fallbacks_2", "modifier_entrait", "modifier_entrait_export", "modifier_entrait_unimock", "modifier_entrait_export_unimock"]


def extract(file, item):
    p = subprocess.run([ASSEMBLE, "extract", "--file", os.path.join(SRC, file), "--item", item], stdout=subprocess.PIPE, stderr=subprocess.PIPE, text=True)
    if p.returncode != 0:
        raise RuntimeError("extract %s `%s`: %s" % (file, item, p.stderr.strip()))
    return p.stdout


def extract_closure(fn):
    p = subprocess.run([ASSEMBLE, "extract-closure", "--file", os.path.join(SRC, "lib.rs"), "--fn", fn], stdout=subprocess.PIPE, stderr=subprocess.PIPE, text=True)
    if p.returncode != 0:
        raise RuntimeError("extract-closure %s: %s" % (fn, p.stderr.strip()))
    return p.stdout


def generate(dest):
    if os.path.isdir(os.path.join(dest, "src")):
        shutil.rmtree(os.path.join(dest, "src"))
    os.makedirs(os.path.join(dest, "src"), exist_ok=True)
    open(os.path.join(dest, "Cargo.toml"), "w").write('''[package]
name = "vx-kani"
version = "0.0.0"
edition = "2021"

[workspace]

[dependencies]
proc-macro2 = "=1.0.107"

[lints.rust]
unexpected_cfgs = { level = "allow" }
''')
    lock = os.path.join(ROOT, "kani", "Cargo.lock")
    if os.path.exists(lock):
        shutil.copy(lock, dest)
    lib = "#![allow(dead_code, unused)]\n"
    lib += "// ---- extracted verbatim from entrait_macros/src/lib.rs\n" + extract("lib.rs", "fn set_fallbacks") + "\n"
    lib += "mod opt {\n    use proc_macro2::Span;\n    // stand-in for `pub struct MockApiIdent(pub syn::Ident);` (see vxlib/e3.py)\n    pub struct MockApiIdent;\n"
    for it in ("struct Opts", "struct SpanOpt", "impl SpanOpt", "struct FutureSend"):
        lib += "// ---- extracted verbatim from entrait_macros/src/opt.rs: %s\n" % it + extract("opt.rs", it) + "\n"
    lib += "}\nuse opt::Opts;\n"
    h = HARNESS
    for fn in ("entrait", "entrait_export", "entrait_unimock", "entrait_export_unimock"):
        h = h.replace("@CLOSURE_%s@" % fn, extract_closure(fn))
    lib += h
    open(os.path.join(dest, "src", "lib.rs"), "w").write(lib)


def run_kani(dest, harness, timeout=900):
    t0 = time.time()
    try:
        p = subprocess.run(["cargo", "kani", "--harness", "proofs::" + harness, "--exact"], cwd=dest, env=dict(ENV, CARGO_TARGET_DIR=os.path.join(BUILD, "kani-target")),
                           stdout=subprocess.PIPE, stderr=subprocess.STDOUT, text=True, timeout=timeout)
        out = p.stdout
    except subprocess.TimeoutExpired as e:
        return {"name": harness, "status": "TIMEOUT", "detail": "kani timed out", "seconds": time.time() - t0}
    dt = time.time() - t0
    m = re.search(r"VERIFICATION:- (\w+)", out)
    status = m.group(1) if m else "ERROR"
    # a crash of the tool chain (CBMC abort, compiler error) is not a verdict about the code
    if status == "FAILED" and ("CBMC failed with status" in out or "invariant violation report" in out or not re.search(r"- Status: FAILURE", out)):
        status = "ERROR"
    checks = None
    mm = re.search(r"\*\* (\d+) of (\d+) failed", out)
    if mm:
        checks = int(mm.group(2))
    n_assert = len(re.findall(r"- Status: SUCCESS\n\s+- Description: \"assertion failed:", out))
    failed = re.findall(r"Check \d+: ([^\n]*)\n\s+- Status: FAILURE\n\s+- Description: \"([^\"]*)\"", out)
    detail = "; ".join("%s: %s" % f for f in failed[:5]) if failed else out[-800:]
    return {"name": harness, "status": status, "checks": n_assert if status == "SUCCESSFUL" else max(n_assert, 1), "checks_total_cbmc": checks, "seconds": round(dt, 1), "detail": detail,
            "bound": "N in {1,2}: unwind 3 with unwinding assertions (complete for these instantiations)",
            "counterexample": None}


def setup(log):
    log("vx setup: kani harness (warm build)")
    dest = os.path.join(BUILD, "kani")
    try:
        generate(dest)
    except Exception as e:
        log("   kani harness generation failed: %s" % e)
        return 2
    r = run_kani(dest, "set_fallbacks_1")
    lk = os.path.join(dest, "Cargo.lock")
    os.makedirs(os.path.join(ROOT, "kani"), exist_ok=True)
    if os.path.exists(lk) and not os.path.exists(os.path.join(ROOT, "kani", "Cargo.lock")):
        shutil.copy(lk, os.path.join(ROOT, "kani", "Cargo.lock"))
    log("   set_fallbacks_1: %s (%.0fs)" % (r["status"], r["seconds"]))
    return 0 if r["status"] == "SUCCESSFUL" else 2


def _locked(fn):
    """cargo kani invocations share one target directory; concurrent checks are serialised on a lock file"""
    import fcntl
    os.makedirs(BUILD, exist_ok=True)
    with open(os.path.join(BUILD, "kani.lock"), "w") as lk:
        fcntl.flock(lk, fcntl.LOCK_EX)
        try:
            return fn()
        finally:
            fcntl.flock(lk, fcntl.LOCK_UN)


def run(names, tier, log, pid="all"):
    return _locked(lambda: _run(names, tier, log, pid))


def _run(names, tier, log, pid="all"):
    # one harness crate per property, so that checks running side by side do not rewrite each other's sources
    dest = os.path.join(BUILD, "kani-" + pid)
    try:
        generate(dest)
    except Exception as e:
        return {"harnesses": [{"name": n, "status": "LOST-ANCHOR", "detail": str(e)} for n in names]}
    from concurrent.futures import ThreadPoolExecutor
    # cargo kani serialises on the target dir lock for the build; the CBMC runs are short
    # build once (serialised by cargo's lock anyway), then run the CBMC parts in parallel
    first = run_kani(dest, names[0])
    with ThreadPoolExecutor(max_workers=6) as ex:
        rest = list(ex.map(lambda n: run_kani(dest, n), names[1:]))
    return {"harnesses": [first] + rest}
