"""E3: Kani / CBMC harnesses."""
import os


def setup(log):
    return 0


def run(names, tier, log):
    return {"harnesses": []}
