//! H4 defect 1 (C08 / C02): an entraited inline module that starts with inner attributes
//! or an inner doc comment is rejected ("expected square brackets").
#![allow(dead_code)]
use entrait::*;

#[entrait(pub Tr1)]
mod m1 {
    #![allow(dead_code, clippy::needless_return)]
    pub fn f(_deps: &impl std::any::Any) -> i32 {
        1
    }
    pub fn g(_deps: &impl std::any::Any) -> i32 {
        2
    }
    fn private() {}
}

#[entrait(Tr2)]
mod m2 {
    //! Module level documentation, written the usual way.
    pub fn h(_deps: &impl std::any::Any) -> i32 {
        3
    }
}

#[test]
fn methods_are_generated() {
    let app = Impl::new(());
    assert_eq!(app.f(), 1);
    assert_eq!(app.g(), 2);
    assert_eq!(app.h(), 3);
}
