#![allow(unused)]
use entrait::*;

pub trait Config { fn name(&self) -> &str; }
impl Config for Impl<App> { fn name(&self) -> &str { self.name.as_str() } }

#[entrait(PickImpl, delegate_by = ref)]
pub trait Pick {
    fn pick<'a>(&'a self, other: &'a str) -> &'a str;
}

pub struct Picker;

#[entrait(ref)]
impl PickImpl for Picker {
    fn pick<'a, D: Config>(deps: &'a D, other: &'a str) -> &'a str {
        if deps.name().len() >= other.len() { deps.name() } else { other }
    }
}

pub struct App { name: String, picker: Picker }
impl AsRef<dyn PickImpl<Self>> for App { fn as_ref(&self) -> &dyn PickImpl<Self> { &self.picker } }

#[test]
fn t() {
    let app = Impl::new(App { name: String::from("configured"), picker: Picker });
    assert_eq!(app.pick("x"), "configured");
}
