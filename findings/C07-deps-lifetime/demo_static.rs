#![allow(unused)]
use entrait::*;

pub trait Config { fn name(&self) -> &str; }
impl Config for Impl<String> { fn name(&self) -> &str { self.as_str() } }

#[entrait(PickImpl, delegate_by = DelegatePick)]
pub trait Pick {
    /// returns the longer of the configured name and `other`
    fn pick<'a>(&'a self, other: &'a str) -> &'a str;
}

pub struct Picker;

#[entrait]
impl PickImpl for Picker {
    fn pick<'a, D: Config>(deps: &'a D, other: &'a str) -> &'a str {
        if deps.name().len() >= other.len() { deps.name() } else { other }
    }
}

impl DelegatePick<Self> for String { type Target = Picker; }

#[test]
fn t() {
    let app = Impl::new(String::from("configured"));
    assert_eq!(app.pick("x"), "configured");
    assert_eq!(app.pick("a-longer-argument"), "a-longer-argument");
}
