#![allow(unused)]
use entrait::*;
pub trait Config { fn name(&self) -> &str; }
impl Config for Impl<App> { fn name(&self) -> &str { self.name.as_str() } }
impl Config for Impl<String> { fn name(&self) -> &str { self.as_str() } }

mod stat {
    use super::*;
    #[entrait(PickImpl, delegate_by = DelegatePick)]
    pub trait Pick { fn pick(&self) -> &str; }
    pub struct Picker;
    #[entrait]
    impl PickImpl for Picker { fn pick(deps: &impl Config) -> &str { deps.name() } }
    impl DelegatePick<Self> for String { type Target = Picker; }
    #[test] fn t() { assert_eq!(Impl::new(String::from("c")).pick(), "c"); }
}

mod dynm {
    use super::*;
    #[entrait(PickImpl, delegate_by = ref)]
    pub trait Pick { fn pick(&self) -> &str; }
    #[entrait(ref)]
    impl PickImpl for Picker { fn pick(deps: &impl Config) -> &str { deps.name() } }
    impl AsRef<dyn PickImpl<Self>> for App { fn as_ref(&self) -> &dyn PickImpl<Self> { &self.picker } }
}
pub struct Picker;
pub struct App { name: String, picker: Picker }
