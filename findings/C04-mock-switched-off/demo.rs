// C04: `mockall = false` (mock support explicitly switched OFF) must behave like "no mock
// support": the generated trait is implemented for EVERY `T: Sync + 'static` that satisfies
// the dependency bounds, not only for `Impl<T>`.
#![allow(dead_code)]
use std::any::Any;

#[::entrait::entrait(Foo, mockall = false)]
fn foo(_deps: &impl Any) -> i32 {
    7
}

// reference: same function without the option
#[::entrait::entrait(Bar)]
fn bar(_deps: &impl Any) -> i32 {
    7
}

struct App;

fn takes_foo(app: &impl Foo) -> i32 {
    app.foo()
}
fn takes_bar(app: &impl Bar) -> i32 {
    app.bar()
}

#[test]
fn plain_type_implements_trait_when_mocking_is_switched_off() {
    assert_eq!(takes_bar(&App), 7);
    // E0277 on this tree: `App: Foo` is not satisfied (only `Impl<T>: Foo` is generated)
    assert_eq!(takes_foo(&App), 7);
}
