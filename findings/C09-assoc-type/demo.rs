// fails to compile on the pinned tree: the associated type is not re-emitted (E0220 / E0437)
use entrait::*;
#[entrait]
trait Tr { type Out; fn f(&self) -> Self::Out; }
