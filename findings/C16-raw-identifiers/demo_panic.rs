// C16: raw identifier parameter that coincides with the (raw identifier) function name.
use entrait::*;
use std::any::Any;

#[entrait(Tr)]
fn r#match(_deps: &impl Any, r#match: i32) -> i32 {
    r#match + 1
}

#[test]
fn raw_param_equal_to_raw_fn_name() {
    assert_eq!(Impl::new(()).r#match(1), 2);
}
