// demo: a generated trait named like a marker trait
use entrait::*;
#[entrait(Sync)]
fn sync<D>(_d: &D) -> i32 { 1 }
#[entrait(Send)]
fn send<D>(_d: D) -> i32 { 2 }
#[test]
fn t() {
    let app = Impl::new(());
    assert_eq!(app.sync(), 1);
}
