use entrait::*;
pub struct W(pub i32);
#[entrait(Foo)]
fn foo<D>(_d: &D, W(foo): W, foo_: i32) -> i32 { foo + foo_ }
#[entrait(Bar)]
fn bar<D>(_d: &D, bar: i32, bar_: i32) -> i32 { bar * 10 + bar_ }
#[test]
fn t() { let app = Impl::new(()); assert_eq!(app.foo(W(1), 2), 3); assert_eq!(app.bar(1, 2), 12); }
