// C05: a concrete dependency type written as a path with a leading `::` (or as a qualified
// path `<T as Trait>::Assoc`) is rejected with "No leading colon allowed" / "No self allowed",
// although every other path shape is accepted as a concrete dependency.
#![allow(dead_code)]

#[::entrait::entrait(pub CharCount)]
fn char_count(s: &::std::string::String, extra: usize) -> usize {
    s.chars().count() + extra
}

// reference: same type without the leading `::`
#[::entrait::entrait(pub CharCount2)]
fn char_count2(s: &std::string::String, extra: usize) -> usize {
    s.chars().count() + extra
}

pub trait HasDb {
    type Db;
}
pub struct App;
pub struct Db(i32);
impl HasDb for App {
    type Db = Db;
}

#[::entrait::entrait(pub Query)]
fn query(db: &<App as HasDb>::Db) -> i32 {
    db.0
}

#[test]
fn absolute_and_qualified_paths_are_concrete_dependencies() {
    let s = ::entrait::Impl::new(String::from("abc"));
    assert_eq!(<::entrait::Impl<String> as CharCount2>::char_count2(&s, 1), 4);
    assert_eq!(<::entrait::Impl<String> as CharCount>::char_count(&s, 1), 4);
    assert_eq!(<::entrait::Impl<Db> as Query>::query(&::entrait::Impl::new(Db(3))), 3);
}
