use entrait::*;
#[entrait(delegate_by = Self)]
trait Foo { fn foo(&self) -> i32; }
struct App;
impl Foo for App { fn foo(&self) -> i32 { 3 } }
#[test]
fn t() { assert_eq!(Impl::new(App).foo(), 3); }
