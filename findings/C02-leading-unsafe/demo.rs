use entrait::*;
unsafe fn danger() -> i32 { 7 }
#[entrait(Foo)]
unsafe fn foo<D>(_d: &D) -> i32 { danger() }
#[test]
fn t() { assert_eq!(unsafe { Impl::new(()).foo() }, 7); }
