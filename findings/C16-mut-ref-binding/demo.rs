use entrait::*;
#[entrait(MutParam)]
fn mut_param<D>(_d: &D, mut c: String, ref d: i32, e @ _: u8) -> usize { c.push('x'); c.len() + *d as usize + e as usize }
#[test]
fn t() { assert_eq!(Impl::new(()).mut_param("a".to_string(), 1, 2), 5); }
