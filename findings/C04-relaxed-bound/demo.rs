// C04: a relaxed bound (`?Sized`) on the dependency parameter is copied verbatim into the
// where clause of the generated impl (`where Self: A + ?Sized`), which rustc rejects.
#![allow(dead_code)]

pub trait A {
    fn a(&self) -> i32;
}

#[::entrait::entrait(Foo)]
fn foo<D: A + ?Sized>(deps: &D) -> i32 {
    deps.a()
}

#[::entrait::entrait(Bar)]
fn bar(deps: &(impl A + ?Sized)) -> i32 {
    deps.a()
}

struct App;
impl A for App {
    fn a(&self) -> i32 {
        1
    }
}

#[test]
fn relaxed_bound_is_not_a_requirement() {
    // error on this tree: "this relaxed bound is not permitted here"
    assert_eq!(App.foo(), 1);
    assert_eq!(App.bar(), 1);
}
