// fails to compile on the pinned tree: `g` has lost its default body, so `impl Tr for App {}` misses an item (E0046)
use entrait::*;
#[entrait]
trait Tr { fn f(&self) -> i32; fn g(&self) -> i32 { 42 } }
struct App;
impl Tr for App { fn f(&self) -> i32 { 1 } }
#[test]
fn t() { assert_eq!(App.g(), 42); }
