#![deny(missing_docs)]
//! crate docs
use entrait::*;
/// documented trait
#[entrait]
#[deprecated]
#[allow(dead_code)]
/// more docs
pub trait Foo {
    /// method doc
    fn foo(&self) -> i32;
}
struct App;
#[allow(deprecated)]
impl Foo for App { fn foo(&self) -> i32 { 7 } }
#[test]
#[allow(deprecated)]
fn t() { assert_eq!(Impl::new(App).foo(), 7); }
