// fails to compile on the pinned tree: E0199 implementing the trait `Tr` is not unsafe
use entrait::*;
#[entrait]
unsafe trait Tr { fn f(&self); }
struct App;
unsafe impl Tr for App { fn f(&self) {} }
