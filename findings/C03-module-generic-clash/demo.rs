#![allow(unused)]
use entrait::*;

// two functions of one entraited module that both call their type parameter `T`
#[entrait(pub Convert)]
mod convert {
    pub fn widen<T: Into<i64>>(_deps: &impl std::any::Any, t: T) -> i64 { t.into() }
    pub fn show<T: ToString>(_deps: &impl std::any::Any, t: T) -> String { t.to_string() }
}

#[test]
fn t() {
    let app = Impl::new(());
    assert_eq!(app.widen(3i32), 3i64);
    assert_eq!(app.show(4u8), "4");
}
