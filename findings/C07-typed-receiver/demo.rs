// fails to compile on the pinned tree: mismatched types, expected `Impl<EntraitT>`, found `&Impl<EntraitT>`
use entrait::*;
#[entrait(TrImpl, delegate_by = DelegateTr)]
trait Tr { fn f(self: &Self, a: i32) -> i32; }
