//! C06 (and the hygiene side of C19): an entraited trait whose method signatures
//! reach `#[entrait]` through a `macro_rules!` argument, while the attribute itself
//! is written in the macro body.
//!
//! Correct behaviour: this file compiles and `main` runs to completion.
//! The same traits written out by hand (no macro_rules) compile fine.
use entrait::*;

// A perfectly ordinary helper macro: "declare an entraited service trait".
macro_rules! service {
    ($(#[$m:meta])* $name:ident { $($methods:tt)* }) => {
        $(#[$m])*
        #[::entrait::entrait]
        pub trait $name {
            $($methods)*
        }
    };
}

service!(Greeter {
    fn greet(&self, who: &str, times: usize) -> String;
});

// dynamic selector, same problem
macro_rules! dyn_service {
    ($name:ident { $($methods:tt)* }) => {
        #[::entrait::entrait(delegate_by = ref)]
        pub trait $name: 'static {
            $($methods)*
        }
    };
}

dyn_service!(Clock {
    fn now(&self, offset: u64) -> u64;
});

// The fn-with-concrete-dependency mode goes through the same code
// (it emits a nested `#[entrait] trait`), so it is hit as well.
macro_rules! entraited {
    ($tr:ident: $($f:tt)*) => {
        #[::entrait::entrait(pub $tr)]
        $($f)*
    };
}

pub struct App {
    clock: Box<dyn Clock + Sync>,
}

entraited!(Double: fn double(_app: &App, x: i32) -> i32 { x * 2 });

impl Greeter for App {
    fn greet(&self, who: &str, times: usize) -> String {
        who.repeat(times)
    }
}

struct Fixed;
impl Clock for Fixed {
    fn now(&self, offset: u64) -> u64 {
        40 + offset
    }
}
impl AsRef<dyn Clock> for App {
    fn as_ref(&self) -> &(dyn Clock + 'static) {
        &*self.clock
    }
}

fn main() {
    let app = Impl::new(App {
        clock: Box::new(Fixed),
    });
    assert_eq!(app.greet("ab", 2), "abab");
    assert_eq!(app.now(2), 42);
    assert_eq!(app.double(21), 42);
    println!("ok");
}
