//! C09: inner attributes and inner doc comments (`#![..]`, `//!`) at the top of the
//! body of an entraited trait. They are attributes / doc comments *on the trait*
//! (Reference: `trait X { InnerAttribute* AssociatedItem* }`), exactly like outer ones.
//!
//! Correct behaviour: this file compiles (as it does when `#[entrait]` is removed,
//! see `mod baseline`) and `main` runs.
#![deny(non_snake_case)]
#![deny(missing_docs)]
#![allow(dead_code)]

/// the same two traits without entrait: accepted
pub mod baseline {
    pub trait Legacy {
        #![allow(non_snake_case)]
        //! A trait mirroring a legacy API; the names are kept on purpose.

        /// returns the value
        fn GetValue(&self) -> i32;
    }
}

/// with entrait
pub mod entraited {
    #[entrait::entrait]
    pub trait Legacy {
        #![allow(non_snake_case)]
        //! A trait mirroring a legacy API; the names are kept on purpose.

        /// returns the value
        fn GetValue(&self) -> i32;
    }
}

struct App;
impl entraited::Legacy for App {
    fn GetValue(&self) -> i32 {
        42
    }
}

fn main() {
    use entraited::Legacy;
    assert_eq!(entrait::Impl::new(App).GetValue(), 42);
    println!("ok");
}
