//! C06: an entraited trait WITH A SUPERTRAIT and a dynamic delegation selector
//! (`delegate_by = ref` / `delegate_by = Borrow`, no delegation-target trait).
//!
//! Correct behaviour: this file compiles and `main` runs to completion -
//! `Impl<App>` implements `Clock` / `Derived` because `App: AsRef<dyn Clock>` /
//! `App: Borrow<dyn Derived>`, and every call is forwarded to the provider.
use entrait::*;

// 1. a marker supertrait that `T: Sync + 'static` does not imply
#[entrait(delegate_by = ref)]
trait Clock: Send + 'static {
    fn now(&self, offset: u64) -> u64;
}

// 2. an entraited supertrait (the documented way of composing hand-written traits)
#[entrait]
trait Base {
    fn base(&self) -> i32;
}

#[entrait(delegate_by = Borrow)]
trait Derived: Base + 'static {
    fn derived(&self, a: i32, b: i32) -> i32;
}

struct Fixed(u64);
impl Clock for Fixed {
    fn now(&self, offset: u64) -> u64 {
        self.0 + offset
    }
}

struct D;
impl Base for D {
    fn base(&self) -> i32 {
        1
    }
}
impl Derived for D {
    fn derived(&self, a: i32, b: i32) -> i32 {
        a * 10 + b
    }
}

struct App {
    clock: Box<dyn Clock + Sync>,
    derived: Box<dyn Derived + Send + Sync>,
}

impl AsRef<dyn Clock> for App {
    fn as_ref(&self) -> &(dyn Clock + 'static) {
        &*self.clock
    }
}
impl core::borrow::Borrow<dyn Derived> for App {
    fn borrow(&self) -> &(dyn Derived + 'static) {
        &*self.derived
    }
}
// `App` itself provides the supertrait, so `Impl<App>: Base` holds
impl Base for App {
    fn base(&self) -> i32 {
        100
    }
}

fn main() {
    let app = Impl::new(App {
        clock: Box::new(Fixed(40)),
        derived: Box::new(D),
    });
    assert_eq!(app.now(2), 42);
    assert_eq!(app.derived(4, 2), 42);
    assert_eq!(app.base(), 100);
    println!("ok");
}
