#!/bin/bash
# usage: run.sh <checkout>; exit 0 iff the demo compiles and runs (= correct behaviour)
set -u
CHECKOUT="${1:?path of a checkout}"
HERE="$(cd "$(dirname "$0")" && pwd)"
cp "$HERE/demo.rs" "$CHECKOUT/examples/h10_defect1.rs"
cd "$CHECKOUT"
cargo run --offline --example h10_defect1
rc=$?
rm -f "$CHECKOUT/examples/h10_defect1.rs"
exit $rc
