//! H4 extra defect 7 (outside C08/C02/C13; generics handling): bounds that mention a
//! lifetime parameter of the function are hoisted to the generated trait / impl header,
//! where that lifetime is not declared (lifetimes stay on the method): E0261.
#![allow(dead_code)]
use entrait::*;
use std::any::Any;

// (a) lifetime predicate in the where clause
#[entrait(Tr0)]
fn f0<'a, 'b>(_deps: &impl Any, a: &'a str, _b: &'b str) -> &'a str
where
    'b: 'a,
{
    a
}

// (b) outlives bound on a type parameter
#[entrait(Tr1)]
fn f1<'a, T: 'a + Clone>(_deps: &impl Any, a: &'a T) -> T {
    a.clone()
}

#[test]
fn t() {
    let app = Impl::new(());
    assert_eq!(app.f0("a", "b"), "a");
    assert_eq!(app.f1(&1), 1);
}
