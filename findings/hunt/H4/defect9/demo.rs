//! H4 extra defect 9 (outside C08/C02/C13; dependency analysis): a dependency type that
//! arrives as a macro_rules `$d:ty` fragment (`syn::Type::Group`) is not looked through,
//! so `&impl Any` is classified as a *concrete* dependency and the macro generates
//! `impl Tr for impl Any` (E0562).
#![allow(dead_code)]
use entrait::*;
use std::any::Any;

macro_rules! define {
    ($d:ty) => {
        #[entrait(Tr)]
        fn f(_deps: &$d) -> i32 {
            1
        }
    };
}
define!(impl Any);

#[test]
fn t() {
    assert_eq!(Impl::new(()).f(), 1);
}
