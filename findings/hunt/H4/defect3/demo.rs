//! H4 defect 3 (C08 / C02): module items that arrive as macro_rules fragments
//! (`$b:block`, `$i:item`, i.e. None-delimited groups) are not understood by the
//! brace/semicolon scanner in input.rs.
#![allow(dead_code)]
use entrait::*;
use std::any::Any;

// (a) a function body passed as `$body:block`: the following `pub fn other` is swallowed
//     into the "body" of `first`, so the trait silently lacks the method `other`.
macro_rules! with_body {
    ($name:ident, $body:block) => {
        #[entrait(TrA)]
        mod ma {
            use super::*;
            pub fn $name(_deps: &impl Any) -> i32 $body
            pub fn other(_deps: &impl Any) -> i32 { 2 }
        }
    };
}
with_body!(first, { 1 });

// (b) whole items passed as `$i:item`: the macro fails with "Read past the end".
macro_rules! with_items {
    ($($i:item)*) => {
        #[entrait(TrB)]
        mod mb {
            use super::*;
            $($i)*
        }
    };
}
with_items! {
    fn private() -> i32 { 3 }
    pub fn third(_deps: &impl Any) -> i32 { private() }
}

#[test]
fn all_methods_exist() {
    let app = Impl::new(());
    assert_eq!(app.first(), 1);
    assert_eq!(app.other(), 2);
    assert_eq!(app.third(), 3);
}
