//! H4 defect 5 (C13): a visibility written before the delegation-target trait name of an
//! entraited trait is parsed, accepted and silently thrown away.
#![allow(dead_code, unused_imports)]
use entrait::*;

mod a {
    use entrait::*;

    // documented syntax: #[entrait($visibility? $TraitIdent?, $option, ...)] trait ...
    #[entrait(pub TrImpl, delegate_by = ref)]
    trait Tr {
        fn f(&self) -> i32;
    }
}

// `pub` was requested for TrImpl, so this import should work (or the macro should have
// told the user that a visibility is not supported here). Instead: E0603, TrImpl is private.
use a::TrImpl;

#[test]
fn t() {
    let _ = Impl::new(());
}
