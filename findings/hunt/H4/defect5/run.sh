#!/bin/bash
# usage: run.sh <path-of-entrait-checkout>
# exits 0 iff the demonstration shows CORRECT behaviour (so: non-zero on the defective tree)
set -u
co="${1:?usage: run.sh <checkout>}"
here="$(cd "$(dirname "$0")" && pwd)"
name=h4_defect5
dst="$co/tests/$name.rs"
cp "$here/demo.rs" "$dst"
trap 'rm -f "$dst"' EXIT
cd "$co" || exit 2
out="$(cargo test --offline --test $name 2>&1)"
rc=$?
echo "$out" | grep -v '^ *Compiling' | tail -n 40
# correct behaviour: either the written visibility is honoured (demo compiles and passes),
# or entrait itself rejects the visibility with a diagnostic. What must not happen is that
# `pub` is accepted and silently dropped, which shows up as rustc's E0603 on `use a::TrImpl`.
if [ $rc -eq 0 ]; then echo "OK: visibility honoured"; exit 0; fi
if echo "$out" | grep -q 'E0603'; then
    echo "DEFECT: \`pub\` written before TrImpl was accepted and silently ignored"
    exit 1
fi
echo "OK?: build failed without E0603 (macro rejected the visibility?)"
exit 0
