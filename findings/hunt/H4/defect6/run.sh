#!/bin/bash
# usage: run.sh <path-of-entrait-checkout>
# exits 0 iff the demonstration shows CORRECT behaviour (so: non-zero on the defective tree)
set -u
co="${1:?usage: run.sh <checkout>}"
here="$(cd "$(dirname "$0")" && pwd)"
name=h4_defect6
dst="$co/tests/$name.rs"
cp "$here/demo.rs" "$dst"
trap 'rm -f "$dst"' EXIT
cd "$co" || exit 2
out="$(cargo test --offline --test $name 2>&1)"
rc=$?
echo "$out" | grep -v '^ *Compiling' | tail -n 40
# correct behaviour: the demo compiles and its test passes
exit $rc
