//! H4 defect 6 (C02): `#[entrait] unsafe impl Trait for Type` puts the `unsafe` qualifier
//! on the generated *inherent* impl (E0197) and omits it from the generated trait impl (E0200).
#![allow(dead_code)]
use entrait::*;
use std::any::Any;

/// A hand-written delegation-target trait with a safety contract.
///
/// # Safety
/// `f` must return a non-zero value.
pub unsafe trait TrImpl<T> {
    fn f(__impl: &Impl<T>) -> i32;
}

pub struct X;

#[entrait]
unsafe impl TrImpl for X {
    fn f(_deps: &impl Any) -> i32 {
        1
    }
}

#[test]
fn t() {
    assert_eq!(<X as TrImpl<()>>::f(&Impl::new(())), 1);
    // the original function is still there, as an inherent function
    assert_eq!(X::f(&Impl::new(())), 1);
}
