#!/bin/bash
# usage: run.sh <path-of-entrait-checkout>
# exits 0 iff the demonstration shows CORRECT behaviour (so: non-zero on the defective tree)
set -u
co="${1:?usage: run.sh <checkout>}"
here="$(cd "$(dirname "$0")" && pwd)"
name=h4_defect4
dst="$co/tests/$name.rs"
cp "$here/demo.rs" "$dst"
trap 'rm -f "$dst"' EXIT
cd "$co" || exit 2
out="$(cargo test --offline --test $name 2>&1)"
rc=$?
echo "$out" | grep -v '^ *Compiling' | tail -n 40
# correct behaviour: `use a::DelegateTr;` is rejected (E0603, private trait), because the
# entraited trait `a::Tr` is private and nothing asked for a wider visibility.
if [ $rc -ne 0 ] && echo "$out" | grep -q 'E0603' && echo "$out" | grep -q 'DelegateTr'; then
    echo "OK: DelegateTr is private like the trait it belongs to"
    exit 0
fi
if [ $rc -eq 0 ]; then
    echo "DEFECT: a::DelegateTr is nameable from outside module a although a::Tr is private"
    exit 1
fi
echo "UNEXPECTED: build failed for another reason"
exit 3
