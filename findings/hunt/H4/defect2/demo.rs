//! H4 defect 2 (C08): the trait is generated *inside* the module, so it is not
//! "as if it had been declared next to the module": it collides with module items
//! of the same name (E0428) and with `use super::Trait` (E0255).
#![allow(dead_code)]
use entrait::*;

// A module `user` that owns the `User` type and whose API trait is also called `User`.
// With a hand-written `pub trait User { .. }` next to `mod user` this is fine: the
// struct lives in `user::`, the trait in the parent.
#[entrait(pub User)]
mod user {
    pub struct User {
        pub id: u32,
    }
    pub fn first_user(_deps: &impl std::any::Any) -> User {
        User { id: 1 }
    }
}

// The module refers to "its" trait the way it would if the trait were declared next to it.
#[entrait(Chain)]
mod chain {
    use super::Chain;
    pub fn base(_deps: &impl std::any::Any) -> i32 {
        1
    }
    pub fn next(deps: &impl Chain) -> i32 {
        deps.base() + 1
    }
}

#[test]
fn works() {
    let app = Impl::new(());
    assert_eq!(app.first_user().id, 1);
    assert_eq!(app.next(), 2);
}
