// C18: an inner attribute (`#![..]`) at the top of an entraited impl block.
// Legal Rust, and the attribute only concerns the user's own functions, but the macro
// rejects the block ("expected square brackets"), so nothing is generated at all.
#![allow(dead_code)]
use entrait::*;

#[entrait(RepoImpl, delegate_by = DelegateRepo)]
pub trait Repo {
    fn get(&self, id: i32) -> i32;
    fn put(&self, id: i32) -> bool;
}

pub struct MyRepo;

// this is what the block looks like without entrait; rustc accepts it
pub struct Plain;
impl Plain {
    #![allow(clippy::needless_return)]
    fn get(id: i32) -> i32 {
        return id;
    }
}

#[entrait]
impl RepoImpl for MyRepo {
    #![allow(clippy::needless_return)]

    fn get<D>(_deps: &D, id: i32) -> i32 {
        return id * 2;
    }

    fn put<D>(_deps: &D, id: i32) -> bool {
        id > 0
    }
}

pub struct App;
impl DelegateRepo<App> for App {
    type Target = MyRepo;
}

#[test]
fn delegates_to_the_block() {
    let app = Impl::new(App);
    assert_eq!(app.get(21), 42);
    assert!(app.put(1));
    assert_eq!(Plain::get(1), 1);
}
