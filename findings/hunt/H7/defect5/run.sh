#!/bin/sh
# usage: run.sh <checkout>; exits 0 iff the demo compiles and its tests pass
set -u
CHECKOUT="${1:?path of a checkout}"
HERE="$(cd "$(dirname "$0")" && pwd)"
NAME=hunt_h7_defect5
mkdir -p "$CHECKOUT/tests"
cp "$HERE/demo.rs" "$CHECKOUT/tests/$NAME.rs"
trap 'rm -f "$CHECKOUT/tests/$NAME.rs"' EXIT
cd "$CHECKOUT" && cargo test --offline --test "$NAME"
