// C18: an inner attribute (`#![..]`) at the top of the body of an entraited trait is
// silently dropped from the re-emitted trait (outer attributes are kept).
#![deny(non_snake_case)]
#![allow(dead_code)]
use entrait::*;

// without entrait: accepted, the inner attribute silences the lint for the whole trait
pub trait Plain {
    #![allow(non_snake_case)]
    fn getHTTP(&self) -> i32;
}

#[entrait]
pub trait Client {
    #![allow(non_snake_case)]
    fn getHTTP(&self) -> i32;
}

pub struct App;
impl Client for App {
    #![allow(non_snake_case)]
    fn getHTTP(&self) -> i32 {
        42
    }
}

#[test]
fn the_inner_attribute_is_still_in_force() {
    assert_eq!(Impl::new(App).getHTTP(), 42);
}
