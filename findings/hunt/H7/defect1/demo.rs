// C01: a by-reference dependency whose type is wrapped in parentheses, or arrives
// through a `$t:ty` macro fragment (an invisible group), gets a BY-VALUE receiver.
#![allow(unused_parens, dead_code)]
use entrait::*;

pub trait Repo {
    fn base(&self) -> i32;
}
impl Repo for Impl<i32> {
    fn base(&self) -> i32 {
        **self
    }
}

mod parenthesized {
    use super::*;

    // legal Rust (rustc only warns `unused_parens`)
    #[entrait(Add)]
    fn add(deps: (&impl Repo), a: i32) -> i32 {
        deps.base() + a
    }

    #[test]
    fn forwards_by_reference() {
        let app = Impl::new(40);
        assert_eq!(app.add(2), 42);
        // still usable: the receiver must have been `&self`
        assert_eq!(app.add(1), 41);
    }
}

mod ty_fragment {
    use super::*;

    macro_rules! handler {
        ($trait_name:ident, $name:ident, $deps:ty) => {
            #[entrait($trait_name)]
            fn $name(deps: $deps, a: i32) -> i32 {
                deps.base() * a
            }
        };
    }
    handler!(Mul, mul, &impl Repo);

    #[test]
    fn forwards_by_reference() {
        let app = Impl::new(21);
        assert_eq!(app.mul(2), 42);
        assert_eq!(app.mul(1), 21);
    }
}

mod ty_fragment_concrete {
    use super::*;
    pub struct App(pub i32);

    macro_rules! handler {
        ($trait_name:ident, $name:ident, $deps:ty) => {
            #[entrait($trait_name)]
            fn $name(deps: $deps, a: i32) -> i32 {
                deps.0 - a
            }
        };
    }
    handler!(Sub, sub, &App);

    #[test]
    fn forwards_by_reference() {
        let app = Impl::new(App(44));
        assert_eq!(app.sub(2), 42);
        assert_eq!(app.sub(4), 40);
    }
}
