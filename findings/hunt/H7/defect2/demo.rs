// C01 / C12: `self` in the forwarding body that entrait generates for an (entraited)
// trait is created with the call-site span of the attribute, while the `&self`
// receiver keeps the span of the user's tokens. `self` is hygienic, so as soon as the
// attribute and the signature come from different macro_rules contexts the generated
// method does not compile (E0424).
#![allow(dead_code)]
use entrait::*;

pub struct App(pub i32);

// (a) C01: a function with a CONCRETE dependency, the attribute written by a macro_rules
//     macro, the function passed in. (The same macro works for `deps: &impl Trait`.)
mod concrete_deps_fn {
    use super::*;

    macro_rules! service {
        ($tr:ident, $i:item) => {
            #[entrait($tr)]
            $i
        };
    }
    service!(Add, fn add(deps: &App, a: i32) -> i32 { deps.0 + a });
    service!(Generic, fn generic(_deps: &impl std::any::Any, a: i32) -> i32 { a });

    #[test]
    fn calls_the_function() {
        assert_eq!(App(40).add(2), 42);
        assert_eq!(Impl::new(App(40)).add(2), 42);
        assert_eq!(Impl::new(App(40)).generic(2), 2);
    }
}

// (b) C12: an entraited trait with an async method, declared through a macro_rules macro
mod async_trait_in_macro {
    use super::*;

    macro_rules! leaf_dependency {
        ($name:ident { $($methods:tt)* }) => {
            #[entrait]
            pub trait $name { $($methods)* }
        };
    }
    leaf_dependency!(Fetch { async fn fetch(&self, key: &str) -> usize; });

    impl Fetch for App {
        async fn fetch(&self, key: &str) -> usize {
            key.len() + self.0 as usize
        }
    }

    #[tokio::test]
    async fn drives_the_original_to_completion() {
        fn assert_send<T: Send>(t: T) -> T { t }
        let app = Impl::new(App(40));
        assert_eq!(assert_send(app.fetch("ab")).await, 42);
    }
}

// (c) the same with a delegation-target trait (static dispatch)
mod static_delegation_in_macro {
    use super::*;

    macro_rules! internal_dependency {
        ($name:ident, $target:ident, $by:ident { $($methods:tt)* }) => {
            #[entrait($target, delegate_by = $by)]
            pub trait $name { $($methods)* }
        };
    }
    internal_dependency!(Repo, RepoImpl, DelegateRepo { fn get(&self, id: i32) -> i32; });

    pub struct MyRepo;
    #[entrait]
    impl RepoImpl for MyRepo {
        fn get<D>(_deps: &D, id: i32) -> i32 { id * 2 }
    }
    impl DelegateRepo<App> for App { type Target = MyRepo; }

    #[test]
    fn delegates() {
        assert_eq!(Impl::new(App(0)).get(21), 42);
    }
}
