// C01: forwarding to an entraited `unsafe fn` is generated as a bare call inside an
// `unsafe fn`. That trips `unsafe_op_in_unsafe_fn` (warn-by-default since edition 2024,
// commonly denied before) in code the user cannot annotate; the lint is reported on the
// user's own `#[entrait(..)]` line.
#![deny(unsafe_op_in_unsafe_fn)]
#![allow(dead_code)]
use entrait::*;
use std::any::Any;

pub struct App(pub i32);

#[entrait(Peek)]
unsafe fn peek(_deps: &impl Any, p: *const i32) -> i32 {
    // the user's own body is written correctly
    unsafe { *p }
}

#[entrait(PeekAsync)]
async unsafe fn peek_async(_deps: &impl Any, p: &i32) -> i32 {
    *p
}

#[entrait(PeekConcrete)]
unsafe fn peek_concrete(deps: &App, p: *const i32) -> i32 {
    unsafe { *p + deps.0 }
}

#[entrait(pub PeekMod)]
mod peek_mod {
    use std::any::Any;
    pub unsafe fn peek_in_mod(_deps: &impl Any, p: *const i32) -> i32 {
        unsafe { *p }
    }
}

#[tokio::test]
async fn forwards() {
    let x = 42;
    let app = Impl::new(App(0));
    assert_eq!(unsafe { app.peek(&x) }, 42);
    assert_eq!(unsafe { app.peek_async(&x) }.await, 42);
    assert_eq!(unsafe { app.peek_concrete(&x) }, 42);
    assert_eq!(unsafe { app.peek_in_mod(&x) }, 42);
}
