// C18: `#[cfg(..)]` on a GENERIC parameter of an entraited function.
// The parameter is lifted onto the generated trait and impl together with its `cfg`,
// but the list of generic ARGUMENTS (`Tr<T, U>`) names it unconditionally.
#![allow(dead_code)]
use entrait::*;
use std::any::Any;

mod disabled {
    use super::*;

    // plain Rust accepts this function (the parameter simply does not exist)
    #[entrait(Convert)]
    fn convert<#[cfg(any())] T, U: Clone>(_deps: &impl Any, a: &U) -> U {
        a.clone()
    }

    #[test]
    fn compiles_and_forwards() {
        let app = Impl::new(());
        assert_eq!(app.convert(&String::from("x")), "x");
    }
}

mod enabled {
    use super::*;

    #[entrait(Echo)]
    fn echo<#[cfg(all())] T>(_deps: &impl Any, a: T) -> T {
        a
    }

    #[test]
    fn compiles_and_forwards() {
        assert_eq!(Impl::new(()).echo(7), 7);
    }
}

mod in_a_module {
    use super::*;

    #[entrait(pub Both)]
    mod both {
        use std::any::Any;
        pub fn first<#[cfg(any())] T, U: Clone>(_deps: &impl Any, a: &U) -> U {
            a.clone()
        }
    }

    #[test]
    fn compiles_and_forwards() {
        assert_eq!(Impl::new(()).first(&5), 5);
    }
}
