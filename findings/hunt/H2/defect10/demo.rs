// C05 / C04: a dependency parameter behind more than one reference (`&&App`, `&&impl A`).
// The dependency analysis strips ALL references to find the dependency type, the receiver
// generation strips exactly ONE, and the forwarding call passes `self` unchanged:
// `get(self)` hands a `&App` to a function expecting `&&App` (E0308).
#![allow(dead_code)]

pub struct App(i32);

#[::entrait::entrait(pub Get)]
fn get(app: &&App, a: i32) -> i32 {
    app.0 + a
}

pub trait A {
    fn a(&self) -> i32;
}
impl A for App {
    fn a(&self) -> i32 {
        self.0
    }
}

#[::entrait::entrait(pub Foo)]
fn foo(deps: &&impl A, a: i32) -> i32 {
    deps.a() + a
}

#[test]
fn double_reference_dependency() {
    let app = App(3);
    assert_eq!((&app).get(1), 4);
    assert_eq!((&app).foo(1), 4);
}
