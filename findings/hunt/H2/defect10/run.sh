#!/bin/sh
# usage: run.sh <path-of-entrait-checkout>
# Copies demo.rs into the checkout as an integration test and runs it offline.
# Exit status 0 iff the demo compiles and its assertions pass (= correct behaviour).
co="${1:?usage: run.sh <checkout>}"
here="$(cd "$(dirname "$0")" && pwd)"
name=hunt_defect10
cp "$here/demo.rs" "$co/tests/$name.rs" || exit 2
(cd "$co" && cargo test --offline --test $name)
rc=$?
rm -f "$co/tests/$name.rs"
exit $rc
