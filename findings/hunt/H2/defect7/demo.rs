// C04: a dependency bound that names a lifetime parameter of the function
// (`deps: &impl Get<'a>` / `D: Get<'a>`).  The bound is moved to the where clause of the
// generated impl (`where Self: Get<'a>`), but `'a` stays a parameter of the METHOD, so the
// impl header refers to an undeclared lifetime (E0261).
#![allow(dead_code)]

pub trait Get<'a> {
    fn get(&self, s: &'a str) -> &'a str;
}

#[::entrait::entrait(Foo)]
fn foo<'a>(deps: &impl Get<'a>, s: &'a str) -> &'a str {
    deps.get(s)
}

#[::entrait::entrait(Bar)]
fn bar<'a, D: Get<'a>>(deps: &D, s: &'a str) -> &'a str {
    deps.get(s)
}

struct App;
impl<'a> Get<'a> for App {
    fn get(&self, s: &'a str) -> &'a str {
        s
    }
}

#[test]
fn bound_with_fn_lifetime_bubbles_up() {
    assert_eq!(App.foo("abc"), "abc");
    assert_eq!(App.bar("abc"), "abc");
}
