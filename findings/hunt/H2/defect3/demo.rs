// C19: the generated `self` receiver and the generated uses of `self` get spans from
// DIFFERENT input tokens.  `self` is hygienic under `macro_rules!`, so as soon as entrait is
// invoked from a declarative macro where these tokens come from different places (macro body
// vs. macro argument), the expansion does not compile (E0424).
#![allow(dead_code)]

// (1) fn input: trait name is a macro argument, the function is written in the macro body.
//     receiver `self` <- span of the `deps` parameter; `foo(self, a)` <- span of the trait ident
macro_rules! make_fn {
    ($tr:ident, $f:ident) => {
        #[::entrait::entrait($tr)]
        fn $f(deps: &impl ::core::any::Any, a: i32) -> i32 {
            let _ = deps;
            a
        }
    };
}
make_fn!(Foo, foo);

// (2) mod input, same thing
macro_rules! make_mod {
    ($tr:ident) => {
        #[::entrait::entrait(pub $tr)]
        mod m {
            pub fn bar(deps: &impl ::core::any::Any, a: i32) -> i32 {
                let _ = deps;
                a
            }
        }
    };
}
make_mod!(Bar);

// (3) trait input: the attribute is written in the macro body, the trait is a macro argument.
//     receiver `self` <- user's token; `self.as_ref()` <- Span::call_site() of the attribute
macro_rules! entraited {
    ($($t:tt)*) => {
        #[::entrait::entrait]
        $($t)*
    };
}
entraited!(
    pub trait Baz {
        fn baz(&self, a: i32) -> i32;
    }
);

struct App;
impl Baz for App {
    fn baz(&self, a: i32) -> i32 {
        a
    }
}

#[test]
fn entrait_can_be_invoked_from_macro_rules() {
    assert_eq!(().foo(1), 1);
    assert_eq!(().bar(2), 2);
    assert_eq!(<::entrait::Impl<App> as Baz>::baz(&::entrait::Impl::new(App), 3), 3);
}
