// C05 (concrete dependency, references with explicit lifetimes) and C04 (no undeclared
// requirement is added): a lifetime predicate in the function's where clause (`where 'b: 'a`)
// is hoisted to the where clause of the generated TRAIT and IMPL, although lifetime
// parameters always stay on the method.  E0261: use of undeclared lifetime name.
// (Written inline, `fn f<'a, 'b: 'a>`, the same function works.)
#![allow(dead_code)]

pub struct App {
    name: String,
}

// concrete dependency
#[::entrait::entrait(pub F1)]
fn f1<'a, 'b>(app: &'a App, s: &'b str) -> &'a str
where
    'b: 'a,
{
    if s.is_empty() {
        &app.name
    } else {
        s
    }
}

pub trait Name {
    fn name(&self) -> &str;
}
impl Name for App {
    fn name(&self) -> &str {
        &self.name
    }
}

// generic dependency
#[::entrait::entrait(pub F2)]
fn f2<'a, 'b, D: Name>(deps: &'a D, s: &'b str) -> &'a str
where
    'b: 'a,
{
    if s.is_empty() {
        deps.name()
    } else {
        s
    }
}

#[test]
fn lifetime_where_predicates_stay_on_the_method() {
    let app = ::entrait::Impl::new(App { name: "n".into() });
    assert_eq!(<::entrait::Impl<App> as F1>::f1(&app, ""), "n");
    assert_eq!(f1(&app, "x"), "x");
    assert_eq!(<App as F2>::f2(&app, ""), "n");
}
