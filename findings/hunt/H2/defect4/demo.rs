// C04: a dependency bound declared in a where clause with a higher-ranked binder in front of
// the bounded type (`where for<'a> D: Get<'a>`).  The binder is dropped when the bound is
// moved to the generated impl (`where Self: Get<'a>`), so the expansion does not compile.
#![allow(dead_code)]

pub trait Get<'a> {
    fn get(&self, s: &'a str) -> &'a str;
}

#[::entrait::entrait(Foo)]
fn foo<D>(deps: &D) -> usize
where
    for<'a> D: Get<'a>,
{
    let s = String::from("abc");
    deps.get(&s).len()
}

// reference: the same bound written as `D: for<'a> Get<'a>` works
#[::entrait::entrait(Bar)]
fn bar<D>(deps: &D) -> usize
where
    D: for<'a> Get<'a>,
{
    let s = String::from("abc");
    deps.get(&s).len()
}

struct App;
impl<'a> Get<'a> for App {
    fn get(&self, s: &'a str) -> &'a str {
        s
    }
}

#[test]
fn higher_ranked_where_bound_bubbles_up() {
    assert_eq!(App.bar(), 3);
    assert_eq!(App.foo(), 3); // E0261 on this tree: use of undeclared lifetime name `'a`
}
