// C05: a concrete dependency that is a generic instantiation with a NAMED lifetime argument
// (`&Holder<'a>`).  The type is used verbatim as the self type of the generated impl
// (`impl Get for Holder<'a>`), but `'a` is a parameter of the method only: E0261.
// (With an elided lifetime, `&Holder<'_>`, the expansion compiles.)
#![allow(dead_code)]

pub struct Holder<'a>(&'a str);

#[::entrait::entrait(pub Get)]
fn get<'a>(h: &Holder<'a>, fallback: &'a str) -> &'a str {
    if h.0.is_empty() {
        fallback
    } else {
        h.0
    }
}

// reference: elided lifetime
#[::entrait::entrait(pub Len)]
fn len(h: &Holder<'_>) -> usize {
    h.0.len()
}

#[test]
fn concrete_dependency_with_lifetime_argument() {
    let h = ::entrait::Impl::new(Holder("abc"));
    assert_eq!(<::entrait::Impl<Holder<'static>> as Len>::len(&h), 3);
    assert_eq!(h.get("x"), "abc");
    assert_eq!(Holder("").get("x"), "x");
}
