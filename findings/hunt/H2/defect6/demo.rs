// C04: a where-clause predicate about a type DERIVED from the dependency parameter
// (`D::Out: Into<i32>`) is a dependency requirement as well.  It is copied verbatim to the
// generated trait (both to the trait's and the method's where clause) and to the impl, where
// `D` does not exist: E0433 "use of undeclared type `D`".
#![allow(dead_code)]

pub trait A {
    type Out;
    fn a(&self) -> Self::Out;
}

#[::entrait::entrait(Foo)]
fn foo<D: A>(deps: &D) -> i32
where
    D::Out: Into<i32>,
{
    deps.a().into()
}

struct App;
impl A for App {
    type Out = i16;
    fn a(&self) -> i16 {
        1
    }
}

#[test]
fn projection_bound_on_deps_bubbles_up() {
    assert_eq!(App.foo(), 1);
}
