// C19: the `Impl<T>` delegation generated for an entraited trait (and therefore also for
// every function with a concrete dependency) calls `self.as_ref()` with METHOD-CALL syntax.
// Whether that compiles depends on which traits the invoking scope has in scope.
#![allow(dead_code)]

// (a) a scope that has an extension trait with a method called `as_ref` in scope
mod a {
    pub trait MyExt {
        fn as_ref(&self) -> i32 {
            0
        }
    }
    impl<T> MyExt for T {}

    #[::entrait::entrait]
    pub trait Tr {
        fn f(&self) -> i32;
    }
    // E0034 on this tree: multiple applicable items in scope (`AsRef::as_ref`, `MyExt::as_ref`)
}

// (b) a scope with no imports at all
#[no_implicit_prelude]
mod b {
    #[::entrait::entrait]
    pub trait Tr {
        fn f(&self) -> i32;
    }
    // E0599 on this tree: no method named `as_ref` found for `&Impl<EntraitT>`

    #[::entrait::entrait(delegate_by = ref)]
    pub trait Tr2 {
        fn f2(&self) -> i32;
    }
    // E0599 on this tree: no method named `as_ref` found for `&(dyn Tr2 + 'static)`
}

// (c) a function with a concrete dependency, in a scope with no imports
#[no_implicit_prelude]
mod c {
    pub struct App(pub i32);

    #[::entrait::entrait(pub Get)]
    fn get(app: &App, a: i32) -> i32 {
        app.0 + a
    }
    // E0599 on this tree
}

struct App;
impl a::Tr for App {
    fn f(&self) -> i32 {
        5
    }
}
impl b::Tr for App {
    fn f(&self) -> i32 {
        6
    }
}

#[test]
fn delegation_does_not_depend_on_traits_in_scope() {
    let app = ::entrait::Impl::new(App);
    assert_eq!(<::entrait::Impl<App> as a::Tr>::f(&app), 5);
    assert_eq!(<::entrait::Impl<App> as b::Tr>::f(&app), 6);
    let app = ::entrait::Impl::new(c::App(1));
    assert_eq!(<::entrait::Impl<c::App> as c::Get>::get(&app, 2), 3);
}
