//! C07, implementation fns with further dependency bounds: a dependency bound list that contains
//! `?Sized` (a function that is also callable with `&dyn Other`, a common way to write such functions).
//! All bounds of the dependency parameter are copied verbatim into the where clause of the generated
//! impl: `impl<EntraitT: ..> TrImpl<EntraitT> for X where Impl<EntraitT>: Other + ?Sized`
//! => "error: this relaxed bound is not permitted here" (relaxed bounds are only allowed where the type
//! parameter is declared).
//!
//! Expected: `?Sized` is not a requirement on `Impl<T>` and is left out; both functions are reached.
use entrait::*;

#[entrait(Other)]
fn other(_: &impl std::any::Any) -> i32 {
    3
}

#[entrait(TrImpl, delegate_by = DelegateTr)]
pub trait Tr {
    fn f(&self) -> i32;
    fn g(&self) -> i32;
}

pub struct X;

#[entrait]
impl TrImpl for X {
    fn f<D: Other + ?Sized>(deps: &D) -> i32 {
        deps.other()
    }
    fn g(deps: &(impl Other + ?Sized)) -> i32 {
        deps.other() + 1
    }
}

struct App;
impl DelegateTr<Self> for App {
    type Target = X;
}

#[test]
fn unsized_friendly_dependency_bounds() {
    assert_eq!(3, Impl::new(App).f());
    assert_eq!(4, Impl::new(App).g());
}
