//! C06, `delegate_by = ref` + async: `Impl<T>` must implement the trait exactly when
//! `T: AsRef<dyn Trait>` (plus entrait's fixed `T: Sync + 'static`).
//! As soon as the trait contains an `async fn`, the generated where clause is
//! `EntraitT: AsRef<dyn Tr> + Send + Sync + 'static` - an undeclared `Send` bound on the application
//! type. It is not needed for anything (the futures only hold `&Impl<T>`, for which `T: Sync` suffices),
//! and it is added even when `?Send` futures were requested.
//!
//! The application type below is `Sync + 'static` but not `Send`.
//! Expected: both tests compile and pass (module `control` shows that the same impl written by hand,
//! without the `Send` bound, is accepted by rustc).
//! This tree: E0599 "the method `f` exists for struct `Impl<App>`, but its trait bounds were not
//! satisfied ... `App: Send`".
use entrait::*;
use std::marker::PhantomData;
use std::sync::MutexGuard;

/// `Sync + 'static`, but `!Send`
pub type NotSend = PhantomData<MutexGuard<'static, i32>>;

mod maybe_send {
    use super::*;

    #[entrait(delegate_by = ref, ?Send)]
    #[async_trait::async_trait(?Send)]
    pub trait Tr: 'static {
        async fn f(&self) -> i32;
    }

    pub struct Leaf;
    #[async_trait::async_trait(?Send)]
    impl Tr for Leaf {
        async fn f(&self) -> i32 {
            5
        }
    }
    pub struct App(pub Leaf, pub NotSend);
    impl AsRef<dyn Tr> for App {
        fn as_ref(&self) -> &(dyn Tr + 'static) {
            &self.0
        }
    }
}

mod send_futures {
    use super::*;

    #[entrait(delegate_by = ref)]
    #[async_trait::async_trait]
    pub trait Tr: Sync + 'static {
        async fn f(&self) -> i32;
    }

    pub struct Leaf;
    #[async_trait::async_trait]
    impl Tr for Leaf {
        async fn f(&self) -> i32 {
            6
        }
    }
    pub struct App(pub Leaf, pub NotSend);
    impl AsRef<dyn Tr> for App {
        fn as_ref(&self) -> &(dyn Tr + 'static) {
            &self.0
        }
    }
}

/// What the expansion of `send_futures` should be - accepted by rustc, future is `Send`.
mod control {
    use super::*;

    #[async_trait::async_trait]
    pub trait Tr: Sync + 'static {
        async fn f(&self) -> i32;
    }
    #[async_trait::async_trait]
    impl<T: Sync + 'static> Tr for Impl<T>
    where
        T: AsRef<dyn Tr> + 'static,
    {
        async fn f(&self) -> i32 {
            self.as_ref().as_ref().f().await
        }
    }

    pub struct Leaf;
    #[async_trait::async_trait]
    impl Tr for Leaf {
        async fn f(&self) -> i32 {
            7
        }
    }
    pub struct App(pub Leaf, pub NotSend);
    impl AsRef<dyn Tr> for App {
        fn as_ref(&self) -> &(dyn Tr + 'static) {
            &self.0
        }
    }
}

fn is_send<T: Send>(_: &T) {}

#[tokio::test]
async fn control_compiles_without_send_bound() {
    use control::*;
    let app = Impl::new(App(Leaf, PhantomData));
    let fut = app.f();
    is_send(&fut);
    assert_eq!(7, fut.await);
}

#[tokio::test]
async fn maybe_send_futures_do_not_need_send_app() {
    use maybe_send::*;
    let app = Impl::new(App(Leaf, PhantomData));
    assert_eq!(5, app.f().await);
}

#[tokio::test]
async fn send_futures_do_not_need_send_app() {
    use send_futures::*;
    let app = Impl::new(App(Leaf, PhantomData));
    let fut = app.f();
    is_send(&fut);
    assert_eq!(6, fut.await);
}
