//! C07, static selection, borrowed return: `fn name(&self, key: &str) -> &str` is fine as a trait method
//! (the elided output lifetime is the one of `&self`). For the static delegation-target trait the
//! receiver is rewritten into an ordinary parameter, `fn name(__impl: &Impl<EntraitT>, key: &str) -> &str`,
//! which has two elided input lifetimes and no receiver => E0106 "missing lifetime specifier" in the
//! generated `TrImpl` (before any implementation block is even written).
//! (Sibling of the known *dynamic* elision defect, but a different rewrite and a different failure:
//! with static selection a trait whose only reference is `&self` works, see `control`.)
//!
//! Expected: the lifetime of `&self` is named on `__impl` and in the output, i.e.
//! `fn name<'s>(__impl: &'s Impl<EntraitT>, key: &str) -> &'s str`.
use entrait::*;

mod control {
    use entrait::*;

    #[entrait(NameImpl, delegate_by = DelegateName)]
    pub trait Name {
        fn name(&self, key: i32) -> &str;
    }
    pub struct X;
    #[entrait]
    impl NameImpl for X {
        fn name<D>(_deps: &D, _key: i32) -> &str {
            "x"
        }
    }
    pub struct App;
    impl DelegateName<Self> for App {
        type Target = X;
    }
}

mod two_references {
    use entrait::*;

    #[entrait(NameImpl, delegate_by = DelegateName)]
    pub trait Name {
        fn name(&self, key: &str) -> &str;
    }
    pub struct X;
    #[entrait]
    impl NameImpl for X {
        fn name<'a, D>(_deps: &'a D, _key: &str) -> &'a str {
            "y"
        }
    }
    pub struct App;
    impl DelegateName<Self> for App {
        type Target = X;
    }
}

#[test]
fn control_only_self_reference() {
    use control::*;
    assert_eq!("x", Impl::new(App).name(1));
}

#[test]
fn borrowed_return_with_second_reference_parameter() {
    use two_references::*;
    assert_eq!("y", Impl::new(App).name("k"));
}
