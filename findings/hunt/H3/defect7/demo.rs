//! C07, delegated traits with a generic method: `#[entrait(TrImpl, delegate_by = ..)] trait Tr`
//! keeps the method's type parameter on the method of the generated `TrImpl<EntraitT>` trait, but
//! `#[entrait] impl TrImpl for X` (which shares the function-to-trait conversion with entraited
//! functions/modules) lifts every type/const parameter of the implementation function onto the
//! *trait reference*: it generates `impl<EntraitT, U: Clone> TrImpl<EntraitT, U> for X { fn f(..) }`.
//! => E0107 "trait takes 1 generic argument but 2 generic arguments were supplied"; the implementation
//! block can never be reached.
//!
//! Expected: the block implements `TrImpl<EntraitT>` with `fn f<U: Clone>(__impl: &Impl<EntraitT>, u: U)`,
//! and `Impl<App>::pair(1)` reaches `X::pair`.
use entrait::*;

#[entrait(PairImpl, delegate_by = DelegatePair)]
pub trait Pair {
    fn pair<U: Clone>(&self, u: U) -> (U, U);
}

pub struct X;

#[entrait]
impl PairImpl for X {
    fn pair<D, U: Clone>(_deps: &D, u: U) -> (U, U) {
        (u.clone(), u)
    }
}

struct App;
impl DelegatePair<Self> for App {
    type Target = X;
}

#[test]
fn generic_method_reaches_the_implementation_block() {
    assert_eq!((1, 1), Impl::new(App).pair(1));
    assert_eq!(("a", "a"), Impl::new(App).pair("a"));
}
