//! C06, generic methods: a method type/const parameter that cannot be inferred from the
//! arguments or the return type (the caller picks it with a turbofish).
//! Expected: `Impl<T>::make::<U>()` forwards to `T::make::<U>()`.
//! This tree: E0283/E0284 "type annotations needed" inside the generated impl, because the
//! forwarding call is `self.as_ref().make()` - the method's own generic arguments are not
//! passed on (the source even says `// TODO: pass additional generic arguments(?)`).
use entrait::*;

mod default_selector {
    use entrait::*;

    #[entrait]
    pub trait Factory {
        fn make<U: Default + ToString>(&self) -> String;
        fn len<const N: usize>(&self) -> usize;
    }

    pub struct App;
    impl Factory for App {
        fn make<U: Default + ToString>(&self) -> String {
            U::default().to_string()
        }
        fn len<const N: usize>(&self) -> usize {
            N
        }
    }
}

mod static_selector {
    use entrait::*;

    #[entrait(FactoryImpl, delegate_by = DelegateFactory)]
    pub trait Factory {
        fn len<const N: usize>(&self) -> usize;
    }

    // hand-written target (an `#[entrait] impl` block has its own, separate problem with generic methods)
    pub struct Target;
    impl<T> FactoryImpl<T> for Target {
        fn len<const N: usize>(_: &Impl<T>) -> usize {
            N
        }
    }
    pub struct App;
    impl DelegateFactory<Self> for App {
        type Target = Target;
    }
}

#[test]
fn non_inferable_method_generics_default_selector() {
    use default_selector::*;
    let app = Impl::new(App);
    assert_eq!("0", app.make::<i32>());
    assert_eq!("false", app.make::<bool>());
    assert_eq!(3, app.len::<3>());
}

#[test]
fn non_inferable_method_generics_static_selector() {
    use static_selector::*;
    assert_eq!(4, Impl::new(App).len::<4>());
}
