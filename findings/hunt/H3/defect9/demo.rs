//! C07, reaching an implementation block from another module/crate: the documented syntax is
//! `#[entrait($visibility? $TraitIdent?, $option, ...)] trait ...`, but the visibility written in front
//! of the delegation-target trait is parsed and then thrown away (`ImplTrait(_, ident)`): `TrImpl` is
//! always emitted with the visibility of `Tr` itself (while the sibling `DelegateTr` is always `pub`).
//! Here `Tr` is private to `inner`, `TrImpl` is requested `pub`: the implementation block outside
//! `inner` cannot name `inner::TrImpl` => E0603 "trait `TrImpl` is private".
//!
//! Expected: `pub trait TrImpl<EntraitT>`, so that the block below compiles and is reached.
use entrait::*;

mod inner {
    use entrait::*;

    #[entrait(pub TrImpl, delegate_by = DelegateTr)]
    trait Tr {
        fn f(&self) -> i32;
    }

    pub fn call<T: DelegateTr<T> + Sync + 'static>(app: &Impl<T>) -> i32 {
        app.f()
    }
}

pub struct X;

#[entrait]
impl inner::TrImpl for X {
    fn f<D>(_deps: &D) -> i32 {
        9
    }
}

struct App;
impl inner::DelegateTr<Self> for App {
    type Target = X;
}

#[test]
fn requested_visibility_of_delegation_target_trait() {
    assert_eq!(9, inner::call(&Impl::new(App)));
}
