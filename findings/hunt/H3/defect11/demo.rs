//! C06 / C07, `Self` in a method signature (low priority, arguably at the edge of the class):
//! the signature is copied verbatim into `impl Tr for Impl<T>`, where `Self` means `Impl<T>`, but the
//! call is forwarded to `T`, where `Self` means `T`.
//!  * default selector, `fn dup(&self) -> Self`: the body `self.as_ref().dup()` has type `T`,
//!    the signature promises `Impl<T>` => E0308 in the generated impl.
//!  * static selector, `fn same(&self, other: &Self) -> bool`: in the generated `TrImpl<EntraitT>` trait
//!    `Self` silently changes meaning to the *target* type, so the forwarding call
//!    `<T::Target as TrImpl<T>>::same(self, other)` passes `&Impl<T>` where `&T::Target` is expected => E0308.
//!
//! Expected: either the expansion compiles (wrapping with `Impl::new(..)` / substituting
//! `Impl<EntraitT>` for `Self`), or the macro reports a proper diagnostic that `Self` is unsupported.
use entrait::*;

mod default_selector {
    use entrait::*;

    #[entrait]
    pub trait Tr {
        fn same(&self, other: &Self) -> bool;
        fn dup(&self) -> Self
        where
            Self: Sized;
    }

    pub struct App(pub i32);
    impl Tr for App {
        fn same(&self, other: &Self) -> bool {
            self.0 == other.0
        }
        fn dup(&self) -> Self {
            App(self.0)
        }
    }
}

mod static_selector {
    use entrait::*;

    #[entrait(TrImpl, delegate_by = DelegateTr)]
    pub trait Tr {
        fn same(&self, other: &Self) -> bool;
    }

    pub struct Target;
    impl<T: 'static> TrImpl<T> for Target {
        fn same(a: &Impl<T>, b: &Impl<T>) -> bool {
            std::ptr::eq(a, b)
        }
    }
    pub struct App;
    impl DelegateTr<Self> for App {
        type Target = Target;
    }
}

#[test]
fn self_type_default_selector() {
    use default_selector::*;
    let a = Impl::new(App(1));
    assert!(a.same(&a));
    let b: Impl<App> = a.dup();
    assert!(a.same(&b));
}

#[test]
fn self_type_static_selector() {
    use static_selector::*;
    let a = Impl::new(App);
    assert!(a.same(&a));
}
