#!/bin/bash
# usage: run.sh <path of an entrait checkout>
# Copies demo.rs into <checkout>/tests/, builds and runs it offline.
# Exit status 0 iff the demonstration compiles and its assertions pass (= CORRECT behaviour).
set -u
CHECKOUT=${1:?usage: run.sh <checkout>}
HERE=$(cd "$(dirname "$0")" && pwd)
NAME=hunt_h3_defect11
mkdir -p "$CHECKOUT/tests"
cp "$HERE/demo.rs" "$CHECKOUT/tests/$NAME.rs"
trap 'rm -f "$CHECKOUT/tests/$NAME.rs"' EXIT
cd "$CHECKOUT" && cargo test --offline --test $NAME
