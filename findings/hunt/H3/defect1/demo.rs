//! C06, generic traits: a trait parameter that has a default (`T = i32`, `const N: usize = 2`).
//! Expected: compiles, Impl<App> forwards to App.
//! This tree: "error: defaults for generic parameters are not allowed here" (deny-by-default
//! future-compat lint `invalid_type_param_default`), because the parameter list of the trait
//! is copied verbatim - including the defaults - into `impl<EntraitT: .., T = i32> Tr<T> for Impl<EntraitT>`.
use entrait::*;

mod ty_default {
    use entrait::*;

    #[entrait]
    pub trait Get<T = i32> {
        fn get(&self) -> T;
    }

    pub struct App;
    impl Get for App {
        fn get(&self) -> i32 {
            7
        }
    }
    impl Get<&'static str> for App {
        fn get(&self) -> &'static str {
            "seven"
        }
    }
}

mod const_default {
    use entrait::*;

    #[entrait(delegate_by = ref)]
    pub trait Arr<const N: usize = 2> {
        fn arr(&self, x: u8) -> [u8; N];
    }

    pub struct Leaf;
    impl<const N: usize> Arr<N> for Leaf {
        fn arr(&self, x: u8) -> [u8; N] {
            [x; N]
        }
    }
    pub struct App(pub Leaf);
    impl AsRef<dyn Arr> for App {
        fn as_ref(&self) -> &(dyn Arr + 'static) {
            &self.0
        }
    }
}

#[test]
fn defaulted_type_parameter() {
    use ty_default::*;
    let app = Impl::new(App);
    assert_eq!(7, <Impl<App> as Get>::get(&app));
    assert_eq!("seven", <Impl<App> as Get<&'static str>>::get(&app));
}

#[test]
fn defaulted_const_parameter() {
    use const_default::*;
    let app = Impl::new(App(Leaf));
    assert_eq!([3, 3], app.arr(3));
}
