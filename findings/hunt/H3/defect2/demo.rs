//! C06, generic traits: a trait with a lifetime parameter.
//! Expected: compiles, Impl<App> forwards to App.
//! This tree: "error: lifetime parameters must be declared prior to type and const parameters",
//! because the generated impl header is `impl<EntraitT: Sync + 'static, 'a> Tr<'a> for Impl<EntraitT>`:
//! `EntraitT` is always pushed first, in front of the trait's own lifetime parameters.
use entrait::*;

mod default_selector {
    use entrait::*;

    #[entrait]
    pub trait Lookup<'a> {
        fn lookup(&self, key: &str) -> Option<&'a str>;
    }

    pub struct App;
    impl Lookup<'static> for App {
        fn lookup(&self, key: &str) -> Option<&'static str> {
            if key == "a" {
                Some("A")
            } else {
                None
            }
        }
    }
}

mod ref_selector {
    use entrait::*;

    #[entrait(delegate_by = ref)]
    pub trait Lookup<'a, K: 'a> {
        fn lookup(&self, key: &'a K) -> &'a K;
    }

    pub struct Leaf;
    impl<'a, K: 'a> Lookup<'a, K> for Leaf {
        fn lookup(&self, key: &'a K) -> &'a K {
            key
        }
    }
    pub struct App(pub Leaf);
    impl AsRef<dyn Lookup<'static, i32>> for App {
        fn as_ref(&self) -> &(dyn Lookup<'static, i32> + 'static) {
            &self.0
        }
    }
}

#[test]
fn lifetime_parameter_default_selector() {
    use default_selector::*;
    let app = Impl::new(App);
    assert_eq!(Some("A"), app.lookup("a"));
    assert_eq!(None, app.lookup("b"));
}

#[test]
fn lifetime_parameter_ref_selector() {
    use ref_selector::*;
    static K: i32 = 5;
    let app = Impl::new(App(Leaf));
    assert_eq!(&5, app.lookup(&K));
}
