//! C09 (attributes on methods are the user's and stay on the *trait*) / C06 (the expansion compiles):
//! every attribute of a trait method is additionally copied onto the generated forwarding method in
//! `impl Tr for Impl<T>`. Attributes that are only legal on the declaration break the build there:
//! `#[deprecated]` on a method of a trait impl is rejected by the deny-by-default lint
//! `useless_deprecated` ("`#[deprecated]` attribute cannot be used on trait methods in impl blocks").
//! (`#[must_use]` on a method gives a future-incompatibility warning for the same reason.)
//!
//! Expected: the trait keeps `#[deprecated]`, the generated impl does not carry it, everything compiles.
use entrait::*;

#[entrait]
pub trait Api {
    /// old entry point
    #[deprecated(note = "use `new_call`")]
    fn old_call(&self) -> i32;

    fn new_call(&self) -> i32;
}

pub struct App;

#[allow(deprecated)]
impl Api for App {
    fn old_call(&self) -> i32 {
        1
    }
    fn new_call(&self) -> i32 {
        2
    }
}

#[test]
#[allow(deprecated)]
fn deprecated_method_is_still_forwarded() {
    let app = Impl::new(App);
    assert_eq!(1, app.old_call());
    assert_eq!(2, app.new_call());
}
