//! C06, supertraits / arbitrary method names: the forwarding call is written with method-call
//! syntax (`self.as_ref().f(..)`) instead of a fully qualified path (`<T as Tr>::f(..)`), so it is
//! ambiguous as soon as another trait that is a bound of `T` / `Impl<T>` has a method of the same name.
//!
//! (a) a subtrait that declares a method with the same name as one of its supertrait:
//!     `T: Tr` implies `T: Super`, both provide `f` => E0034 "multiple applicable items in scope".
//! (b) a method called `as_ref` (or `borrow` with delegate_by=Borrow): `self.as_ref()` itself becomes
//!     ambiguous between `AsRef<T> for Impl<T>` and the trait that is being implemented => E0034.
//!
//! Expected: both compile and each method of Impl<T> forwards to the method of the same trait on T.
use entrait::*;

mod a {
    use entrait::*;

    #[entrait]
    pub trait Super {
        fn f(&self) -> i32;
    }

    #[entrait]
    pub trait Tr: Super {
        fn f(&self) -> i32;
    }

    pub struct App;
    impl Super for App {
        fn f(&self) -> i32 {
            1
        }
    }
    impl Tr for App {
        fn f(&self) -> i32 {
            2
        }
    }
}

mod b {
    use entrait::*;

    #[entrait]
    pub trait Tr {
        fn as_ref(&self) -> i32;
    }

    pub struct App;
    impl Tr for App {
        fn as_ref(&self) -> i32 {
            3
        }
    }
}

#[test]
fn same_method_name_in_supertrait() {
    use a::*;
    let app = Impl::new(App);
    assert_eq!(1, <Impl<App> as Super>::f(&app));
    assert_eq!(2, <Impl<App> as Tr>::f(&app));
}

#[test]
fn method_called_as_ref() {
    use b::*;
    let app = Impl::new(App);
    assert_eq!(3, <Impl<App> as Tr>::as_ref(&app));
}
