// C07: the generated selector trait is `trait DelegateTr<T> { type Target: TrImpl<T>; }` with a
// type parameter literally named `T` (only `EntraitT` and `__impl` are reserved names).
// If the delegation-target trait is called `T`, the parameter shadows it: E0404.
use entrait::*;

#[entrait(T, delegate_by = DelegateTr)]
pub trait Tr {
    fn f(&self) -> i32;
}

pub struct X;
#[entrait]
impl T for X {
    fn f<D>(_: &D) -> i32 {
        1
    }
}

struct App;
impl DelegateTr<Self> for App {
    type Target = X;
}

#[test]
fn delegation_target_trait_named_t() {
    assert_eq!(Impl::new(App).f(), 1);
}
