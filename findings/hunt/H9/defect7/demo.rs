// C07: a delegated trait with a supertrait. The generated
// `impl<EntraitT: Sync + 'static> Tr for Impl<EntraitT> where EntraitT: DelegateTr<EntraitT> + ..`
// does not carry the supertrait as a requirement, so rustc cannot prove `Impl<EntraitT>: Send`
// for the blanket impl: E0277. (Same for `delegate_by = ref` and for leaf delegation.)
use entrait::*;

#[entrait(TrImpl, delegate_by = DelegateTr)]
pub trait Tr: Send {
    fn f(&self) -> i32;
}

pub struct X;
#[entrait]
impl TrImpl for X {
    fn f<D>(_: &D) -> i32 {
        1
    }
}

struct App;
impl DelegateTr<Self> for App {
    type Target = X;
}

fn needs_send(t: impl Tr + Send) -> i32 {
    t.f()
}

#[test]
fn delegated_trait_with_supertrait() {
    assert_eq!(needs_send(Impl::new(App)), 1);
}
