// C04 ("in a where clause"): a where-clause bound on the dependency parameter is only recognised
// when the bounded type is the bare path `D`. Written as `(D): A`, or arriving through a `$d:ty`
// macro fragment (invisible group), the predicate is not turned into a dependency bound: it is
// hoisted unchanged onto the generated trait and impl, where `D` does not exist (E0412/E0425),
// and it also stays on the method.
#![allow(unused_parens)]
use entrait::*;

pub trait A {
    fn a(&self) -> i32;
}

#[entrait(Paren)]
fn paren<D>(deps: &D, x: i32) -> i32
where
    (D): A,
{
    deps.a() + x
}

macro_rules! entraited {
    ($bounded:ty) => {
        #[entrait(Grouped)]
        fn grouped<D>(deps: &D, x: i32) -> i32
        where
            $bounded: A,
        {
            deps.a() + x
        }
    };
}
entraited!(D);

struct App;
impl A for Impl<App> {
    fn a(&self) -> i32 {
        1
    }
}

#[test]
fn where_clause_bound_on_wrapped_dependency_parameter() {
    let app = Impl::new(App);
    assert_eq!(app.paren(2), 3);
    assert_eq!(app.grouped(2), 3);
}
