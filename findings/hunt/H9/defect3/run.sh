#!/bin/bash
# usage: run.sh <path-of-entrait-checkout>
# exits 0 iff the demonstration shows CORRECT behaviour (the demo compiles and its tests pass)
set -u
CHECKOUT=${1:?usage: run.sh <checkout>}
HERE=$(cd "$(dirname "$0")" && pwd)
mkdir -p "$CHECKOUT/tests"
cp "$HERE/demo.rs" "$CHECKOUT/tests/hunt_demo_3.rs"
cd "$CHECKOUT"
cargo test --offline --test hunt_demo_3
rc=$?
rm -f "$CHECKOUT/tests/hunt_demo_3.rs"
exit $rc
