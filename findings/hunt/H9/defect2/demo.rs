// C04: a dependency bound that itself contains a nested `impl Trait`
// (`&impl Get<Out = impl Display>`, legal in argument position) is copied verbatim into the
// where clause of the generated impl (`where Self: Get<Out = impl Display>`), where
// `impl Trait` is not allowed: E0562.
use entrait::*;
use std::fmt::Display;

pub trait Get {
    type Out;
    fn get(&self) -> Self::Out;
}

// control: this is what the user wrote, and it is fine as a plain function
#[allow(dead_code)]
fn plain(deps: &impl Get<Out = impl Display>, x: i32) -> String {
    format!("{}{}", deps.get(), x)
}

#[entrait(Show)]
fn show(deps: &impl Get<Out = impl Display>, x: i32) -> String {
    format!("{}{}", deps.get(), x)
}

struct App;
impl Get for Impl<App> {
    type Out = u8;
    fn get(&self) -> u8 {
        1
    }
}

#[test]
fn nested_impl_trait_in_dependency_bound() {
    assert_eq!(Impl::new(App).show(2), "12");
}
