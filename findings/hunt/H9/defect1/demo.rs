// C04: a dependency reference that is wrapped in parentheses, or that arrives through a
// `$t:ty` macro fragment (an invisible group), is classified as a generic `&impl A` dependency
// by the analysis, but the signature converter does not look through the wrapper: it generates a
// BY-VALUE receiver (`fn f(self, ..)`), adds the by-value `Send` requirement to the impl, and
// forwards `f(self, ..)` where `&impl A` is expected (E0308).
#![allow(unused_parens)]
use entrait::*;

pub trait A {
    fn a(&self) -> i32;
}

// (1) parenthesised type: legal Rust (only an `unused_parens` lint)
#[entrait(Paren)]
fn paren(deps: (&impl A), x: i32) -> i32 {
    deps.a() + x
}

// (2) the whole dependency type passed as a `ty` fragment
macro_rules! entraited {
    ($name:ident, $tr:ident, $deps:ty) => {
        #[entrait($tr)]
        fn $name(deps: $deps, x: i32) -> i32 {
            deps.a() + x
        }
    };
}
entraited!(grouped, Grouped, &impl A);

// neither `Send` nor anything else than `A + Sync + 'static` was declared
struct App(std::marker::PhantomData<std::sync::MutexGuard<'static, ()>>);
impl A for Impl<App> {
    fn a(&self) -> i32 {
        1
    }
}
// MutexGuard is Sync but not Send
fn assert_sync<T: Sync + 'static>() {}

#[test]
fn reference_dependency_in_parens_or_group() {
    assert_sync::<Impl<App>>();
    let app = Impl::new(App(std::marker::PhantomData));
    assert_eq!(app.paren(2), 3);
    assert_eq!(app.grouped(2), 3);
}
