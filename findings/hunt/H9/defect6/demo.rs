// C07: `#[entrait] impl TrImpl for X` moves the functions of the block into an INHERENT impl of X.
// One type can therefore not be the implementation block of two delegated traits that share a
// method name (and cannot have an inherent method of that name either), although
// `impl AImpl<T> for X` and `impl BImpl<T> for X` written by hand are perfectly fine: E0592 / E0034.
use entrait::*;

#[entrait(ReadImpl, delegate_by = DelegateRead)]
pub trait Read {
    fn get(&self, k: i32) -> i32;
}
#[entrait(CountImpl, delegate_by = DelegateCount)]
pub trait Count {
    fn get(&self, k: i32) -> i32;
}

pub struct X;

#[entrait]
impl ReadImpl for X {
    fn get<D>(_: &D, k: i32) -> i32 {
        k + 1
    }
}
#[entrait]
impl CountImpl for X {
    fn get<D>(_: &D, k: i32) -> i32 {
        k + 2
    }
}

struct App;
impl DelegateRead<Self> for App {
    type Target = X;
}
impl DelegateCount<Self> for App {
    type Target = X;
}

#[test]
fn one_target_type_for_two_traits_with_a_common_method_name() {
    let app = Impl::new(App);
    assert_eq!(Read::get(&app, 0), 1);
    assert_eq!(Count::get(&app, 0), 2);
}
