// C07: the forwarding body that entrait generates for an entraited trait contains a `self`
// token with the span of the macro call site, while the `&self` receiver is the user's own token.
// `self` is hygienic, so when the method signatures reach the attribute through macro_rules
// arguments, the two are in different syntax contexts and the delegation does not compile (E0424).
use entrait::*;

macro_rules! delegated {
    ($tr:ident, $imp:ident, $del:ident { $($methods:tt)* }) => {
        #[entrait($imp, delegate_by = $del)]
        pub trait $tr { $($methods)* }
    };
}

delegated!(Tr, TrImpl, DelegateTr {
    fn f(&self, a: i32) -> i32;
});

pub struct X;
#[entrait]
impl TrImpl for X {
    fn f<D>(_: &D, a: i32) -> i32 {
        a + 1
    }
}

struct App;
impl DelegateTr<Self> for App {
    type Target = X;
}

#[test]
fn delegated_trait_with_methods_from_macro_arguments() {
    assert_eq!(Impl::new(App).f(1), 2);
}
