// C18: "attributes on parameters are stripped from generated signatures" - a `#[cfg(..)]` on a
// parameter is stripped as well, so a cfg-disabled parameter becomes a real parameter of the
// generated trait method and is forwarded to the function, which does not have it.
#![allow(unused)]
use entrait::*;
use std::any::Any;

#[entrait(Foo)]
fn foo(deps: &impl Any, #[cfg(any())] a: i32, b: i32) -> i32 {
    b
}

#[entrait(pub Bar)]
mod bar {
    use std::any::Any;
    pub fn bar(deps: &impl Any, #[cfg(any())] a: i32, b: i32) -> i32 {
        b
    }
}

// control: an enabled cfg and a lint attribute on parameters are fine
#[entrait(Baz)]
fn baz(deps: &impl Any, #[cfg(all())] a: i32, #[allow(unused_variables)] b: i32) -> i32 {
    a
}

#[test]
fn cfg_disabled_parameter() {
    let app = Impl::new(());
    assert_eq!(app.baz(1, 2), 1);
    assert_eq!(app.foo(7), 7);
    assert_eq!(app.bar(7), 7);
}
