// C12: `?Send` opt-out is not honoured by dynamic delegation of async methods:
// the delegating impl still demands `App: Send` (and `dyn BarImpl<App> + Sync`).
#![allow(unused)]
use async_trait::async_trait;
use entrait::*;
use std::marker::PhantomData;
use std::rc::Rc;

#[entrait(BarImpl, delegate_by = ref, ?Send)]
#[async_trait(?Send)]
trait Bar {
    async fn bar(&self) -> Rc<i32>;
}

struct Baz;

#[entrait(ref)]
#[async_trait(?Send)]
impl BarImpl for Baz {
    async fn bar<D>(_deps: &D) -> Rc<i32> {
        Rc::new(3)
    }
}

// An application that is Sync (entrait always wants that) but not Send.
// With `struct App(Baz);` instead, this file compiles and the test passes.
struct App(Baz, PhantomData<std::sync::MutexGuard<'static, ()>>);

// (both forms, so that the demo does not depend on whether `+ Sync` stays on the trait object)
impl AsRef<dyn BarImpl<App> + Sync> for App {
    fn as_ref(&self) -> &(dyn BarImpl<App> + Sync + 'static) {
        &self.0
    }
}
impl AsRef<dyn BarImpl<App>> for App {
    fn as_ref(&self) -> &(dyn BarImpl<App> + 'static) {
        &self.0
    }
}

#[tokio::test]
async fn no_send_requirement_with_opt_out() {
    let app = Impl::new(App(Baz, PhantomData));
    assert_eq!(*app.bar().await, 3);
}
