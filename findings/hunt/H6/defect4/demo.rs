// C12: "When an `async_trait` attribute is present below entrait, `async fn` is kept as written and
// that attribute is re-applied to the generated trait(s) and implementation(s) INSTEAD."
// For fn and mod inputs the attribute is re-applied to the generated trait and impl, but it is also
// left on the function / module itself, where async_trait rejects it.
#![allow(unused)]
use entrait::*;
use std::any::Any;

#[entrait(Foo)]
#[async_trait::async_trait]
async fn foo(deps: &impl Any, a: i32) -> i32 {
    a
}

#[entrait(pub Bar)]
#[async_trait::async_trait]
mod bar {
    use std::any::Any;
    pub async fn bar(deps: &impl Any, a: i32) -> i32 {
        a
    }
}


#[tokio::test]
async fn async_trait_below_entrait() {
    let app = Impl::new(());
    assert_eq!(app.foo(7).await, 7);
    assert_eq!(app.bar(8).await, 8);
}
