// C18-adjacent (attribute placement): an inner attribute at the top of an entraited module
// (or impl block) is legal Rust, but the macro's hand-written item parser only knows outer
// attributes and rejects the module with "expected square brackets".
#![allow(unused)]
use entrait::*;

#[entrait(pub M)]
mod m {
    #![allow(clippy::all)]
    //! inner docs are inner attributes, too
    pub fn f(deps: &impl std::any::Any) -> i32 {
        1
    }
}

#[test]
fn inner_attribute_in_module() {
    assert_eq!(Impl::new(()).f(), 1);
}
