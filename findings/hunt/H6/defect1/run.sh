#!/bin/bash
# usage: run.sh <path-to-entrait-checkout>
# exits 0 iff the demo compiles and its test passes (= correct behaviour); non-zero on the defective tree
set -u
CO=${1:?path of checkout}
HERE=$(cd "$(dirname "$0")" && pwd)
cp "$HERE/demo.rs" "$CO/tests/hunt_defect1.rs"
cd "$CO"
cargo test --offline --test hunt_defect1 2>&1 | grep -v '^warning\|^ *Compiling' | tail -40
rc=${PIPESTATUS[0]}
rm -f "$CO/tests/hunt_defect1.rs"
exit $rc
