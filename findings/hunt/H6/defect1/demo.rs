// C15: a valid input makes the macro panic.
// A function whose name is a raw identifier and that has a parameter of the same name.
#![allow(unused)]
use entrait::*;
use std::any::Any;

#[entrait(Match)]
fn r#match(deps: &impl Any, r#match: i32) -> i32 {
    r#match
}

// control: the same shape with a plain identifier works (parameter is renamed `find_`)
#[entrait(Find)]
fn find(deps: &impl Any, find: i32) -> i32 {
    find
}

#[test]
fn raw_ident_fn_with_same_named_param() {
    assert_eq!(Impl::new(()).find(7), 7);
    assert_eq!(Impl::new(()).r#match(7), 7);
}
