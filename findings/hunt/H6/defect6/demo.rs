// C12: `?Send` opt-out is not honoured when the dependency is taken by value:
// the generated impl is `impl<EntraitT: Sync + Send + 'static> ReturnRc for EntraitT`.
// (This is the README's own `?Send` example.)
#![allow(unused)]
use entrait::*;
use std::any::Any;
use std::rc::Rc;

#[entrait(ReturnRc, ?Send)]
async fn return_rc(_deps: impl Any) -> Rc<i32> {
    Rc::new(42)
}

// Sync but not Send
struct NotSend(std::marker::PhantomData<std::sync::MutexGuard<'static, ()>>);

#[tokio::test]
async fn no_send_requirement_with_opt_out() {
    let app = Impl::new(NotSend(Default::default()));
    assert_eq!(*ReturnRc::return_rc(app).await, 42);
}
