// C18: attributes of the methods of an entraited trait are mirrored onto the delegating methods,
// parameter attributes included - but the forwarding call lists every parameter, also a
// cfg-disabled one.
#![allow(unused)]
use entrait::*;

#[entrait]
trait Tr {
    fn f(&self, #[cfg(any())] a: i32, b: i32) -> i32;
}

struct App;
impl Tr for App {
    fn f(&self, b: i32) -> i32 {
        b
    }
}

#[test]
fn cfg_disabled_parameter_of_trait_method() {
    assert_eq!(Impl::new(App).f(7), 7);
}
