// C15: malformed option lists that are accepted silently (a missing comma between the
// positional argument and the first option). Correct behaviour: a diagnostic, as for the
// function form `#[entrait(Foo no_deps)]`, which is rejected with "unexpected token".
#![allow(unused)]
use entrait::*;
use std::any::Any;

// 1. trait input: no comma after the delegation-target trait
#[entrait(TrImpl delegate_by = DelegateTr)]
trait Tr {
    fn f(&self) -> i32;
}

// 2. impl-block input: no comma after `ref` (note that the well-formed `#[entrait(ref, debug)]`
//    is the one that gets rejected, with "expected identifier")
struct X;
#[entrait(ref debug = false)]
impl Tr2Impl for X {
    fn f(deps: &impl Any) -> i32 {
        1
    }
}
#[entrait(Tr2Impl, delegate_by = ref)]
trait Tr2 {
    fn f(&self) -> i32;
}

#[test]
fn t() {}
