#!/bin/bash
# usage: run.sh <path-to-entrait-checkout>
# The demo contains two malformed attribute argument lists. Correct behaviour is a compile-time
# diagnostic for each of them, i.e. the build must FAIL with 2 entrait errors.
# exits 0 iff both are rejected; non-zero on the defective tree (where the file compiles).
set -u
CO=${1:?path of checkout}
HERE=$(cd "$(dirname "$0")" && pwd)
cp "$HERE/demo.rs" "$CO/tests/hunt_defect9.rs"
cd "$CO"
out=$(cargo test --offline --test hunt_defect9 --no-run 2>&1)
rc=$?
rm -f "$CO/tests/hunt_defect9.rs"
echo "$out" | grep -v '^warning\|^ *Compiling' | tail -30
if [ $rc -eq 0 ]; then
  echo "DEFECT: both malformed option lists were accepted silently"
  exit 1
fi
if echo "$out" | grep -q "panicked"; then echo "macro panicked"; exit 2; fi
n=$(echo "$out" | grep -c "hunt_defect9.rs:\(9\|17\):")
if [ "$n" -ge 2 ]; then exit 0; else echo "only $n of the 2 malformed lists were diagnosed"; exit 1; fi
