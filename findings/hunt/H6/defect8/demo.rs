// C18: every attribute of a method of an entraited trait is mirrored onto the delegating method
// of `impl Tr for Impl<T>`. That is right for `cfg`, but wrong for attributes that are not
// allowed on (or change meaning on) trait-impl methods, e.g. `#[deprecated]`
// (deny-by-default lint `useless_deprecated`, "will become a hard error").
#![allow(unused)]
#![allow(deprecated)]
use entrait::*;

#[entrait]
trait Tr {
    #[deprecated]
    fn old(&self) -> i32;
    fn new(&self) -> i32;
}

struct App;
impl Tr for App {
    fn old(&self) -> i32 { 1 }
    fn new(&self) -> i32 { 2 }
}

#[test]
fn deprecated_trait_method() {
    assert_eq!(Impl::new(App).new(), 2);
    assert_eq!(Impl::new(App).old(), 1);
}
