// C12 (return type borrowed from an argument): with `no_deps` a `&self` receiver is inserted in
// front of the parameters, which silently changes what an elided output lifetime refers to.
#![allow(unused)]
use entrait::*;

#[entrait(Foo, no_deps)]
async fn foo(a: &str) -> &str {
    a
}

// the non-async form fails the same way
#[entrait(Bar, no_deps)]
fn bar(a: &str) -> &str {
    a
}

// control: explicit lifetimes work
#[entrait(Baz, no_deps)]
async fn baz<'a>(a: &'a str) -> &'a str {
    a
}

#[tokio::test]
async fn no_deps_elided_borrow_from_argument() {
    let app = Impl::new(());
    assert_eq!(app.baz("x").await, "x");
    assert_eq!(app.foo("x").await, "x");
    assert_eq!(app.bar("x"), "x");
}
