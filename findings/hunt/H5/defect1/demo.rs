// C10 / C17: `mockall = false` (the documented default) and `unimock = false` must behave exactly
// like leaving the option out. On this tree they silently switch the generated delegating impl
// from the blanket `impl<T> Trait for T where T: Deps` to `impl<T> Trait for Impl<T>`.
#![allow(dead_code, unused_variables)]
use entrait::*;

pub trait Leaf {
    fn leaf(&self) -> i32;
}

/// A hand-written dependency provider that is not `Impl<_>`.
pub struct MyDeps;
impl Leaf for MyDeps {
    fn leaf(&self) -> i32 {
        42
    }
}

// control: no mock option at all
#[entrait(Mid0)]
fn mid0(deps: &impl Leaf) -> i32 {
    deps.leaf()
}

// explicit default value
#[entrait(Mid1, mockall = false)]
fn mid1(deps: &impl Leaf) -> i32 {
    deps.leaf()
}

// unimock explicitly switched off (mock_api kept, as one does when toggling mocks per item)
#[entrait(Mid2, unimock = false, mock_api = Mid2Mock)]
fn mid2(deps: &impl Leaf) -> i32 {
    deps.leaf()
}

#[test]
fn explicit_false_is_the_same_as_omitting_the_option() {
    assert_eq!(42, MyDeps.mid0());
    assert_eq!(42, MyDeps.mid1()); // E0599 on this tree
    assert_eq!(42, MyDeps.mid2()); // E0599 on this tree
}
