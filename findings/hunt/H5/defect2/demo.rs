// C10 / C17: unimock support is "switched on by the `unimock` option OR the `unimock` crate feature",
// and "with the unimock crate feature entrait(args) expands exactly as entrait(args, unimock) without it".
// Run WITHOUT `--features unimock`: the expansion of the `unimock` option refers to
// `::entrait::__unimock`, which only exists when the cargo feature is on.
#![allow(dead_code, unused_variables)]
use entrait::*;

#[entrait(Foo, unimock, mock_api = FooMock)]
fn foo(deps: &impl std::any::Any, a: i32) -> i32 {
    a
}

#[entrait(mock_api = TrMock, unimock)]
trait Tr {
    fn tr(&self) -> i32;
}

#[test]
fn unimock_option_without_the_cargo_feature_compiles() {
    assert_eq!(1, Impl::new(()).foo(1));
}
