#!/bin/sh
# usage: run.sh <path-of-checkout>
# Copies demo.rs into the checkout as an integration test, runs it offline and
# exits 0 iff the demonstration shows CORRECT behaviour (so it exits non-zero on the defective tree).
set -u
CHECKOUT="$1"
HERE="$(cd "$(dirname "$0")" && pwd)"
T=h5_defect6
cp "$HERE/demo.rs" "$CHECKOUT/tests/$T.rs"
LOG="$(mktemp)"
(cd "$CHECKOUT" && cargo test --offline  --test $T) >"$LOG" 2>&1
rc=$?
grep -v '^warning' "$LOG" | grep -A14 '^error\|^test \|panicked' | head -60
rm -f "$CHECKOUT/tests/$T.rs" "$LOG"
exit $rc
