// A parameter with the same raw identifier as the function makes the macro panic:
// the collision is resolved by appending `_` to the *string* "r#type", and `Ident::new("r#type_")` panics.
#![allow(dead_code, unused_variables)]
use entrait::*;

#[entrait(Foo, no_deps)]
fn r#type(r#type: i32) -> i32 {
    r#type
}

#[entrait(Bar)]
fn r#match(deps: &impl std::any::Any, r#match: i32) -> i32 {
    r#match
}

#[test]
fn raw_identifiers() {
    assert_eq!(1, Impl::new(()).r#type(1));
    assert_eq!(2, Impl::new(()).r#match(2));
}
