// A type parameter of the entraited function is lifted to the generated trait (`trait Foo<T>`), but the
// generated forwarding call is a plain `foo(self)`: when `T` occurs neither in the remaining parameters nor
// in the return type it cannot be inferred (E0283 / E0282), although `Self: Foo<T>` names it.
// (The unimock `unmock_with = [foo]` path - C11 - forwards the same way.)
#![allow(dead_code, unused_variables)]
use entrait::*;

pub trait Named {
    fn name() -> &'static str;
}
impl Named for i32 {
    fn name() -> &'static str {
        "i32"
    }
}
impl Named for u8 {
    fn name() -> &'static str {
        "u8"
    }
}

#[entrait(Foo)]
fn foo<T: Named>(deps: &impl std::any::Any) -> &'static str {
    T::name()
}

#[entrait(Bar, no_deps)]
fn bar<T: Named, const N: usize>(prefix: &str) -> String {
    format!("{prefix}{}{N}", T::name())
}

#[test]
fn generic_argument_reaches_the_function() {
    let app = Impl::new(());
    assert_eq!("i32", <Impl<()> as Foo<i32>>::foo(&app));
    assert_eq!("u8", <Impl<()> as Foo<u8>>::foo(&app));
    assert_eq!("x:u83", <Impl<()> as Bar<u8, 3>>::bar(&app, "x:"));
}
