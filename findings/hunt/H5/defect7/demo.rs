// An inner attribute at the top of an entraited module is valid Rust, but entrait's own module parser
// only knows outer attributes and rejects it.
#![allow(dead_code, unused_variables)]
use entrait::*;

#[entrait(pub M)]
mod m {
    #![allow(clippy::needless_return)]
    //! inner doc comments are inner attributes, too

    pub fn f(deps: &impl std::any::Any, a: i32) -> i32 {
        return a;
    }
}

#[test]
fn module_with_inner_attribute() {
    assert_eq!(1, Impl::new(()).f(1));
}
