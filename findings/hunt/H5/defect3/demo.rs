// C17: "the expansion does not depend on option order" / "a misuse is accepted silently".
// The same option may be given twice with contradicting values; entrait accepts this silently and the
// LAST occurrence wins, so the meaning of the attribute depends on the order of its options.
#![allow(dead_code, unused_variables)]
use entrait::*;

// --- contradicting duplicates (DUP) ---
#[entrait(A, no_deps, no_deps = false)] // DUP: means "has deps"
fn a(deps: &impl std::any::Any, x: i32) -> i32 {
    x
}
#[entrait(B, no_deps = false, no_deps)] // DUP: same option set, other order: means "no deps"
fn b(x: i32, y: i32) -> i32 {
    x + y
}
#[entrait(C, mockall, mockall = false, export, export = false)] // DUP
fn c(deps: &impl std::any::Any) {}
#[entrait(mock_api = M1, mock_api = M2, delegate_by = ref, delegate_by = Self)] // DUP
trait D {
    fn d(&self) -> i32;
}
impl D for () {
    fn d(&self) -> i32 {
        7
    }
}
// --- end ---

#[entrait(Control, no_deps)]
fn control(x: i32) -> i32 {
    x
}

#[test]
fn builds() {
    let app = Impl::new(());
    assert_eq!(1, app.control(1));
}

#[test] // DUP
fn order_dependent_meaning() { // DUP
    let app = Impl::new(()); // DUP
    assert_eq!(1, app.a(1)); // DUP: `a` took a deps parameter
    assert_eq!(3, app.b(1, 2)); // DUP: `b` did not
    assert_eq!(7, app.d()); // DUP: delegate_by = Self won over delegate_by = ref
} // DUP
