#!/bin/sh
# usage: run.sh <path-of-checkout>
# Correct behaviour = the attributes with contradicting duplicate options are REJECTED with a diagnostic
# (while the same file without them builds). Exits 0 iff that is the case; on the defective tree the
# duplicates are accepted silently (last one wins), the test passes, and this script exits 1.
set -u
CHECKOUT="$1"
HERE="$(cd "$(dirname "$0")" && pwd)"
LOG="$(mktemp)"
cleanup() { rm -f "$CHECKOUT/tests/h5_defect3.rs" "$CHECKOUT/tests/h5_defect3_control.rs" "$LOG"; }

# control: the file without the DUP items / lines must build and pass
grep -v 'DUP' "$HERE/demo.rs" | awk '
  /--- contradicting duplicates/ {skip=1}
  /--- end ---/ {skip=0; next}
  !skip {print}' > "$CHECKOUT/tests/h5_defect3_control.rs"
if ! (cd "$CHECKOUT" && cargo test --offline --test h5_defect3_control) >"$LOG" 2>&1; then
    echo "control does not build - inconclusive"; grep -A8 '^error' "$LOG" | head -40; cleanup; exit 2
fi

cp "$HERE/demo.rs" "$CHECKOUT/tests/h5_defect3.rs"
(cd "$CHECKOUT" && cargo test --offline --test h5_defect3) >"$LOG" 2>&1
rc=$?
grep -v '^warning' "$LOG" | grep -A10 '^error\|^test ' | head -60
cleanup
if [ $rc -eq 0 ]; then
    echo "DEFECT: contradicting duplicate options were accepted silently; last occurrence wins"
    exit 1
fi
echo "duplicates rejected (correct)"
exit 0
