// entrait invoked from a `macro_rules!` macro that receives the trait name as a parameter:
// the generated method's `&self` receiver is spanned like the `deps` parameter (macro definition site),
// but the `self` argument of the forwarding call is spanned like the trait name (macro call site).
// `self` is hygienic, so the two do not resolve to each other: E0424.
#![allow(dead_code, unused_variables)]
use entrait::*;

macro_rules! service {
    ($trait_name:ident) => {
        #[entrait(pub $trait_name)]
        fn get(deps: &impl std::any::Any, a: i32) -> i32 {
            a
        }
    };
}

mod one {
    use super::*;
    service!(GetOne);
}
mod two {
    use super::*;
    service!(GetTwo);
}

#[test]
fn entrait_inside_macro_rules() {
    use one::GetOne;
    assert_eq!(1, GetOne::get(&Impl::new(()), 1));
}
