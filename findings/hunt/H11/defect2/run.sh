#!/bin/bash
# usage: run.sh <checkout>
# exit 0 iff the misuse is rejected by entrait with its specific message and no unparsable tokens are emitted
set -u
here="$(cd "$(dirname "$0")" && pwd)"
co="${1:?path of a checkout}"
cp "$here/demo.rs" "$co/tests/hunt_2.rs"
cd "$co"
cargo test --offline --test hunt_2 --no-run > "$here/last_run.log" 2>&1
rm -f "$co/tests/hunt_2.rs"
grep -E "^(error|warning: unused)" "$here/last_run.log" | head -20
n_specific=$(grep -c "^error: Function cannot have a self receiver" "$here/last_run.log")
n_parse=$(grep -c "unexpected \`self\` parameter in function" "$here/last_run.log")
n_panic=$(grep -c "panicked" "$here/last_run.log")
echo "specific diagnostics: $n_specific (want 2), parser errors on generated tokens: $n_parse (want 0), panics: $n_panic (want 0)"
if [ "$n_specific" -eq 2 ] && [ "$n_parse" -eq 0 ] && [ "$n_panic" -eq 0 ]; then
    echo "CORRECT: misuse rejected with the specific message"; exit 0
else
    echo "DEFECT: self receiver under no_deps is not rejected by the macro"; exit 1
fi
