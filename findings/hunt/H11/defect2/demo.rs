//! C15: with `no_deps` a `self` receiver is not rejected; the macro inserts a second receiver
//! and emits `fn f(&self, &self)`, which does not even parse.
//!
//! Copy to `tests/hunt_2.rs` and build with `cargo test --offline --test hunt_2 --no-run`.
//! This file must NOT compile; what matters is the diagnostic:
//!   expected: error: Function cannot have a self receiver      (reported by entrait, at `&self`)
//!   actual:   error: unexpected `self` parameter in function   (rustc's parser, on the generated tokens)
//!             error[E0415]: identifier `self` is bound more than once in this parameter list
//!             error[E0061]: this function takes 1 argument but 0 arguments were supplied
#![allow(unused)]

use entrait::*;

// single function
#[entrait(SingleFn, no_deps)]
fn single_fn(&self, x: i32) -> i32 {
    x
}

// module mode
#[entrait(InModule, no_deps)]
mod in_module {
    pub fn by_value(self, x: i32) -> i32 {
        x
    }
}
