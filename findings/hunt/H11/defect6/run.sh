#!/bin/bash
# usage: run.sh <checkout>
# exit 0 iff the demo compiles and its test passes
set -u
here="$(cd "$(dirname "$0")" && pwd)"
co="${1:?path of a checkout}"
cp "$here/demo.rs" "$co/tests/hunt_6.rs"
cd "$co"
cargo test --offline --test hunt_6 2>&1 | tee "$here/last_run.log" | grep -vE "^warning|^ *(-->|\||=|[0-9]+ \|)|^$" | tail -15
rc=${PIPESTATUS[0]}
rm -f "$co/tests/hunt_6.rs"
exit $rc
