//! (outside C08/C15/C16 - impl-block input; same shape as the fixed module case 0d143fd)
//! An inner attribute at the top of an entraited impl block - legal Rust - is rejected:
//!     error: expected square brackets
//!
//! Copy to `tests/hunt_6.rs` and run `cargo test --offline --test hunt_6`.
#![allow(unused)]

use entrait::*;

#[entrait(ValueImpl, delegate_by = DelegateValue)]
pub trait Value {
    fn value(&self) -> u8;
    fn other(&self) -> u8;
}

pub struct MyImpl;

#[entrait]
impl ValueImpl for MyImpl {
    #![allow(clippy::needless_lifetimes)]

    fn value<D>(_deps: &D) -> u8 {
        42
    }
    fn other<D>(_deps: &D) -> u8 {
        1
    }
}

pub struct App;
impl DelegateValue<Self> for App {
    type Target = MyImpl;
}

#[test]
fn delegates() {
    let app = Impl::new(App);
    assert_eq!(42, app.value());
    assert_eq!(1, app.other());
}
