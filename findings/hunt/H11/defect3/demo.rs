//! C08: the re-export `use m::Tr;` generated next to an entraited module is a relative path.
//! In an edition-2015 crate `use` paths start at the crate root, so for a module that is not
//! declared at the crate root the trait is NOT importable from the module's parent
//! (E0432 unresolved import `m`).
//!
//! This file is the `src/lib.rs` of a scratch crate with `edition = "2015"` that depends on
//! entrait by path (run.sh creates it under `<checkout>/target/hunt_3`).
#![allow(unused)]

#[macro_use]
extern crate entrait;

pub mod outer {
    use std::any::Any;

    #[entrait(pub Tr)]
    mod m {
        use std::any::Any;

        pub fn f(_deps: &impl Any) -> u8 {
            1
        }
        pub fn g<D>(_deps: &D, x: u8) -> u8 {
            x
        }
    }

    // as if `Tr` had been declared next to `mod m`
    pub fn user<T: Tr>(t: &T) -> u8 {
        t.g(41)
    }
}

#[test]
fn trait_is_importable_from_the_parent() {
    use outer::Tr;
    let app = entrait::Impl::new(());
    assert_eq!(41, outer::user(&app));
    assert_eq!(2, app.g(2));
}
