#!/bin/bash
# usage: run.sh <checkout>
# Builds and tests an edition-2015 scratch crate that uses entrait's module mode in a nested module.
# exit 0 iff it compiles and its test passes (= correct behaviour)
set -u
here="$(cd "$(dirname "$0")" && pwd)"
co="$(cd "${1:?path of a checkout}" && pwd)"
pkg="$co/target/hunt_3"
rm -rf "$pkg"; mkdir -p "$pkg/src"
cp "$here/demo.rs" "$pkg/src/lib.rs"
cat > "$pkg/Cargo.toml" <<TOML
[package]
name = "hunt_3"
version = "0.0.0"
edition = "2015"

[dependencies]
entrait = { path = "$co" }

[workspace]
TOML
cd "$pkg"
CARGO_TARGET_DIR="$co/target/hunt_3_target" cargo test --offline 2>&1 | tee "$here/last_run.log" | grep -vE "^warning|^ *(-->|\||=|[0-9]+ \|)|^$" | tail -25
rc=${PIPESTATUS[0]}
rm -rf "$pkg"
exit $rc
