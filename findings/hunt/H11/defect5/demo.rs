//! (outside C08/C15/C16 - trait re-emission, C09 family)
//! Inner attributes and inner doc comments of an entraited trait are silently dropped.
//!
//! Copy to `tests/hunt_5.rs` and run `cargo test --offline --test hunt_5`.
//! On the defective tree this file does not compile: the `#![allow(non_snake_case)]` written
//! inside the trait is lost, so the crate-level `deny` fires on the trait's method (and, because
//! the delegating impl mirrors the method, nothing else is needed to see it).
#![deny(non_snake_case)]
#![allow(unused)]

use entrait::*;

#[entrait]
pub trait Legacy {
    #![allow(non_snake_case)]
    //! Inner documentation of the trait (dropped as well).

    fn GetValue(&self) -> u8;
}

impl Legacy for () {
    #![allow(non_snake_case)]
    fn GetValue(&self) -> u8 {
        7
    }
}

#[test]
fn still_delegates() {
    assert_eq!(7, Impl::new(()).GetValue());
}
