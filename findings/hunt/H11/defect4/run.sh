#!/bin/bash
# usage: run.sh <checkout>
# Builds an edition-2015 scratch crate containing three documented misuses.
# exit 0 iff each misuse is reported with entrait's specific message (= correct behaviour)
set -u
here="$(cd "$(dirname "$0")" && pwd)"
co="$(cd "${1:?path of a checkout}" && pwd)"
pkg="$co/target/hunt_4"
rm -rf "$pkg"; mkdir -p "$pkg/src"
cp "$here/demo.rs" "$pkg/src/lib.rs"
cat > "$pkg/Cargo.toml" <<TOML
[package]
name = "hunt_4"
version = "0.0.0"
edition = "2015"

[dependencies]
entrait = { path = "$co" }

[workspace]
TOML
cd "$pkg"
CARGO_TARGET_DIR="$co/target/hunt_4_target" cargo build --offline > "$here/last_run.log" 2>&1
rm -rf "$pkg"
grep -E "^error" "$here/last_run.log" | head -20
a=$(grep -c "^error: Function must have a dependency 'receiver' as its first parameter" "$here/last_run.log")
b=$(grep -c "^error: Using concrete dependencies in a module is an anti-pattern" "$here/last_run.log")
c=$(grep -c "^error: Unkonwn entrait option \"bogus\"" "$here/last_run.log")
lost=$(grep -c "cannot find \`core\` in the crate root" "$here/last_run.log")
echo "specific messages: missing-deps=$a concrete-in-module=$b unknown-option=$c (want 1 1 1); E0433 'cannot find core' instead: $lost (want 0)"
if [ "$a" -eq 1 ] && [ "$b" -eq 1 ] && [ "$c" -eq 1 ] && [ "$lost" -eq 0 ]; then
    echo "CORRECT: all three misuses are reported with their specific message"; exit 0
else
    echo "DEFECT: entrait's diagnostics are lost in an edition-2015 crate"; exit 1
fi
