//! C15: in an edition-2015 crate none of entrait's diagnostics reach the user.
//! The error is emitted as `::core::compile_error! { .. }` (syn's `Error::into_compile_error`)
//! with the span of the offending user tokens; in the 2015 edition a macro path starting with
//! `::` is looked up in the crate root only, so rustc reports
//!     error[E0433]: cannot find `core` in the crate root
//! at the offending tokens instead of the specific message.
//!
//! This file is the `src/lib.rs` of a scratch crate with `edition = "2015"` that depends on
//! entrait by path (run.sh creates it under `<checkout>/target/hunt_4`).  It must NOT compile;
//! what matters is which diagnostics are printed.
#![allow(unused)]

#[macro_use]
extern crate entrait;

pub struct App;

// documented misuse 1: missing dependency parameter without `no_deps`
#[entrait(MissingDeps)]
fn missing_deps() -> u8 {
    1
}

// documented misuse 2: concrete dependency inside a module
#[entrait(ConcreteInModule)]
mod concrete_in_module {
    pub fn f(_deps: &super::App) -> u8 {
        1
    }
}

// documented misuse 3: unknown option (this one is produced while parsing the attribute)
#[entrait(UnknownOption, bogus)]
fn unknown_option(_deps: &App) -> u8 {
    1
}
