//! C16: a raw-identifier parameter (`r#arg1`) that coincides with a would-be generated
//! parameter name (`arg1`) collides with the generated name.
//!
//! Copy to `tests/hunt_1.rs` and run `cargo test --offline --test hunt_1`.
//! On the defective tree this file does not compile (E0415).
#![allow(unused)]

use entrait::*;
use std::any::Any;

pub struct N(pub i32);

// `r#arg1` is the identifier `arg1`.  The wildcard is the typed parameter with index 1,
// so its generated name is `arg1` as well.
#[entrait(PlainRaw)]
fn plain_raw(_deps: &impl Any, r#arg1: i32, _: i32) -> i32 {
    r#arg1
}

// The same through a lifted binding: `N(r#arg1)` has one binding and is lifted to `r#arg1`,
// `(_, _)` has none and gets the generated name `arg1`.
#[entrait(LiftedRaw)]
fn lifted_raw(_deps: &impl Any, N(r#arg1): N, (_, _): (i32, i32)) -> i32 {
    r#arg1
}

// `no_deps` and a second-level name: the wildcard has index 0, `arg0` is taken, so `_arg0` is tried next
#[entrait(NoDepsRaw, no_deps)]
fn no_deps_raw(_: i32, arg0: i32, r#_arg0: i32) -> i32 {
    arg0 * 10 + r#_arg0
}

// module mode goes through the same code
#[entrait(ModRaw)]
mod mod_raw {
    pub fn in_mod(_deps: &impl std::any::Any, r#arg1: i32, _: i32) -> i32 {
        r#arg1
    }
}

#[test]
fn parameters_are_forwarded_positionally() {
    let app = Impl::new(());
    assert_eq!(5, app.plain_raw(5, 6));
    assert_eq!(7, app.lifted_raw(N(7), (1, 2)));
    assert_eq!(12, app.no_deps_raw(0, 1, 2));
    assert_eq!(9, app.in_mod(9, 0));
}
