#!/bin/bash
# usage: run.sh <checkout>
# exit 0 iff the demo compiles and its test passes (= correct behaviour)
set -u
here="$(cd "$(dirname "$0")" && pwd)"
co="${1:?path of a checkout}"
cp "$here/demo.rs" "$co/tests/hunt_1.rs"
cd "$co"
cargo test --offline --test hunt_1 2>&1 | tee "$here/last_run.log" | tail -25
rc=${PIPESTATUS[0]}
rm -f "$co/tests/hunt_1.rs"
exit $rc
