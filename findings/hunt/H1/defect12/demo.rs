// C03: entrait used inside macro_rules, the trait name being a macro argument.
// The generated `&self` receiver and the `self` in the delegating call get different hygiene.
use entrait::*;
use std::any::Any;

macro_rules! make {
    ($tr:ident) => {
        #[entrait($tr)]
        fn f(_deps: &impl Any, x: i32) -> i32 {
            x
        }
    };
}
make!(Tr);

macro_rules! make_mod {
    ($tr:ident) => {
        #[entrait(pub $tr)]
        mod m {
            pub fn g(_deps: &impl std::any::Any, x: i32) -> i32 {
                x
            }
        }
    };
}
make_mod!(Tr2);

#[test]
fn trait_name_from_macro_argument() {
    let app = Impl::new(());
    assert_eq!(app.f(1), 1);
    assert_eq!(app.g(1), 1);
}
