// C16: parameter named like the generated `__impl` parameter, in an entraited impl block.
use entrait::*;
use std::any::Any;

#[entrait(TrImpl, delegate_by = DelegateTr)]
pub trait Tr {
    fn f(&self, __impl: i32) -> i32;
}

pub struct X;

#[entrait]
impl TrImpl for X {
    fn f(_deps: &impl Any, __impl: i32) -> i32 {
        __impl + 1
    }
}

impl DelegateTr<Self> for () {
    type Target = X;
}

#[test]
fn param_named_like_generated_one() {
    assert_eq!(Impl::new(()).f(1), 2);
}
