// C03: inline bound on a type parameter that mentions a lifetime parameter of the function.
use entrait::*;
use std::any::Any;

#[entrait(Tr)]
fn f<'a, T: 'a + Clone>(_deps: &impl Any, a: &'a T) -> &'a T {
    a
}

#[test]
fn inline_lifetime_bound_on_type_param() {
    assert_eq!(*Impl::new(()).f(&1), 1);
}
