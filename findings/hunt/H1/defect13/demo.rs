// C03: by-value dependency of a concrete type.
use entrait::*;

pub struct App(i32);

#[entrait(A)]
fn a(deps: App, x: i32) -> i32 {
    deps.0 + x
}

#[test]
fn concrete_by_value_deps() {
    assert_eq!(App(1).a(2), 3);
    assert_eq!(Impl::new(App(1)).a(2), 3);
}
