#!/bin/sh
# usage: run.sh <path of an entrait checkout>
# exits 0 iff the demonstration compiles and its assertions hold (= correct behaviour)
co="${1:?usage: run.sh <checkout>}"
here="$(cd "$(dirname "$0")" && pwd)"
name=hunt_defect13
cp "$here/demo.rs" "$co/tests/$name.rs" || exit 2
trap 'rm -f "$co/tests/$name.rs"' EXIT
cd "$co" || exit 2
cargo test --offline --test $name
rc=$?
exit $rc
