// C16: `r#foo` is the same identifier as `foo`, so the parameter shadows the function
// in the generated method body; it must be renamed like a plain `foo` parameter is.
use entrait::*;
use std::any::Any;

#[entrait(Tr)]
fn foo(_deps: &impl Any, r#foo: i32) -> i32 {
    r#foo + 1
}

// the mirror image: raw fn name, plain parameter
#[entrait(Tr2)]
fn r#bar(_deps: &impl Any, bar: i32) -> i32 {
    bar + 1
}

#[test]
fn raw_param_shadows_fn() {
    assert_eq!(Impl::new(()).foo(1), 2);
    assert_eq!(Impl::new(()).bar(1), 2);
}
