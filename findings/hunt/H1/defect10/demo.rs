// C03: higher-ranked where-clause predicate on the dependency generic: the `for<'a>` binder is lost.
use entrait::*;

pub trait Foo<'a> {
    fn foo(&self) -> i32 {
        7
    }
}
impl<'a, T> Foo<'a> for T {}

#[entrait(Tr)]
fn f<D>(deps: &D) -> i32
where
    for<'a> D: Foo<'a>,
{
    deps.foo()
}

#[test]
fn higher_ranked_predicate_on_deps() {
    assert_eq!(Impl::new(()).f(), 7);
}
