// C03: the dependency's bound mentions a lifetime parameter of the function.
// The bound is moved to the impl-level where clause (`Self: Foo<'a>`), where `'a` does not exist.
use entrait::*;

pub trait Foo<'a> {
    fn foo(&'a self) -> &'a str;
}
impl<'a> Foo<'a> for String {
    fn foo(&'a self) -> &'a str {
        self
    }
}
impl<'a, T: Foo<'a>> Foo<'a> for Impl<T> {
    fn foo(&'a self) -> &'a str {
        (**self).foo()
    }
}

#[entrait(Tr)]
fn f<'a, D: Foo<'a>>(deps: &'a D) -> &'a str {
    deps.foo()
}

#[entrait(Tr2)]
fn g<'a>(deps: &'a impl Foo<'a>) -> &'a str {
    deps.foo()
}

#[test]
fn deps_bound_with_fn_lifetime() {
    let app = Impl::new(String::from("x"));
    assert_eq!(app.f(), "x");
    assert_eq!(app.g(), "x");
}
