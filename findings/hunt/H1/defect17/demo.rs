// C01 / "an undeclared bound is added": the delegating impl demands `T: 'static` of `Impl<T>`,
// although neither the function nor the documentation (`impl<T: Sync> Foo for Impl<T>`) does.
use entrait::*;

pub trait Foo {
    fn foo(&self) -> i32;
}
impl<T: AsRef<str>> Foo for Impl<T> {
    fn foo(&self) -> i32 {
        (**self).as_ref().len() as i32
    }
}

#[entrait(Tr)]
fn f(deps: &impl Foo) -> i32 {
    deps.foo()
}

#[test]
fn borrowed_application_state() {
    let s = String::from("abc");
    let app = Impl::new(s.as_str()); // Impl<&'s str>
    assert_eq!(f(&app), 3); // the function itself accepts it
    assert_eq!(app.f(), 3); // the trait method must, too
}
