// C03: no_deps + a return type that borrows from the (only) reference argument through
// lifetime elision. Inserting `&self` in front changes what the elided lifetime means.
use entrait::*;

#[entrait(Tr, no_deps)]
fn f(a: &str) -> &str {
    a
}

#[entrait(Tr2, no_deps)]
fn g(a: &str, _b: i32) -> std::str::Chars<'_> {
    a.chars()
}

#[entrait(Tr3, no_deps)]
async fn h(a: &str) -> &str {
    a
}

#[tokio::test]
async fn elided_borrow_from_argument() {
    let s = String::from("xy");
    let r;
    {
        let app = Impl::new(());
        r = app.f(&s); // must borrow from `s`, not from `app`
        assert_eq!(app.g(&s, 1).count(), 2);
        assert_eq!(app.h(&s).await, "xy");
        // call type identity
        let _p: for<'x, 'y> fn(&'x Impl<()>, &'y str) -> &'y str = <Impl<()> as Tr>::f;
    }
    assert_eq!(r, "xy");
}
