// C03: where-clause predicates that mention a lifetime parameter of the function.
// Lifetimes stay on the method, but the predicates are also copied onto the trait.
use entrait::*;
use std::any::Any;

#[entrait(Tr)]
fn f<'a, T>(_deps: &impl Any, a: &'a T) -> &'a T
where
    T: 'a,
{
    a
}

#[entrait(Tr2)]
fn g<'a, 'b>(_deps: &impl Any, a: &'a str, _b: &'b str) -> &'b str
where
    'a: 'b,
{
    a
}

#[test]
fn where_clause_with_lifetimes() {
    let app = Impl::new(());
    assert_eq!(*app.f(&1), 1);
    assert_eq!(app.g("x", "y"), "x");
}
