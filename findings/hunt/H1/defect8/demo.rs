// C03: a `?Sized` dependency (so that the function also accepts `&dyn Foo`).
use entrait::*;

pub trait Foo {
    fn foo(&self) -> i32 {
        7
    }
}
impl<T: ?Sized> Foo for T {}

#[entrait(Tr)]
fn f(deps: &(impl Foo + ?Sized)) -> i32 {
    deps.foo()
}

#[entrait(Tr2)]
fn g<D: Foo + ?Sized>(deps: &D) -> i32 {
    deps.foo()
}

#[entrait(Tr3)]
fn h<D>(deps: &D) -> i32
where
    D: ?Sized + Foo,
{
    deps.foo()
}

#[test]
fn unsized_deps() {
    let app = Impl::new(());
    assert_eq!(app.f() + app.g() + app.h(), 21);
}
