// C03: a user generic that happens to be called `EntraitT` clashes with the generated impl parameter.
use entrait::*;
use std::any::Any;

#[entrait(Tr)]
fn f<EntraitT: Clone>(_deps: &impl Any, a: EntraitT) -> EntraitT {
    a.clone()
}

#[test]
fn generic_named_like_generated_one() {
    assert_eq!(Impl::new(()).f(1), 1);
}
