// C03: the named generic used for the dependency is removed from the method's generics,
// but every other mention of it in the signature is left behind.
use entrait::*;

pub trait HasOut {
    type Out: Default;
    fn v(&self) -> i32 {
        7
    }
}
impl HasOut for () {
    type Out = i32;
}
impl<T: HasOut> HasOut for Impl<T> {
    type Out = T::Out;
}

// associated type of the dependency in the return type
#[entrait(Tr)]
fn f<D: HasOut>(_deps: &D) -> D::Out {
    Default::default()
}

// second parameter of the dependency's type
#[entrait(Tr2)]
fn g<D: HasOut>(deps: &D, other: &D) -> i32 {
    deps.v() + other.v()
}

#[test]
fn deps_generic_used_elsewhere() {
    let app = Impl::new(());
    assert_eq!(app.f(), 0);
    assert_eq!(app.g(&app), 14);
}
