// mod input: an inner attribute (or inner doc comment) at the top of the entraited module.
use entrait::*;

#[entrait(pub Tr)]
mod m {
    #![allow(dead_code)]
    //! inner docs
    use std::any::Any;
    pub fn f(_deps: &impl Any) -> i32 {
        1
    }
    pub fn g(_deps: &impl Any) -> i32 {
        2
    }
}

#[test]
fn module_with_inner_attribute() {
    let app = Impl::new(());
    assert_eq!(app.f(), 1);
    assert_eq!(app.g(), 2);
}
