// C03 / C01: a parameter that carries #[cfg(..)]. The attribute is stripped, the parameter stays.
use entrait::*;
use std::any::Any;

#[entrait(Tr)]
fn f(_deps: &impl Any, #[cfg(any())] a: i32, b: i32) -> i32 {
    b
}

#[test]
fn cfg_on_parameter() {
    let app = Impl::new(());
    assert_eq!(f(&app, 1), 1);
    assert_eq!(app.f(1), 1);
}
