// C03: type / const generics that cannot be inferred from the argument list.
// The parameter moves to the trait (`Tr<T>`), but the delegating call is a bare `f(self)`.
use entrait::*;
use std::any::Any;

#[entrait(Tr)]
fn f<T: Default + std::fmt::Debug>(_deps: &impl Any) -> String {
    format!("{:?}", T::default())
}

#[entrait(Tr2)]
fn g<const N: usize>(_deps: &impl Any) -> usize {
    N
}

#[test]
fn generics_not_inferable_from_arguments() {
    let app = Impl::new(());
    assert_eq!(f::<i32>(&app), "0");
    assert_eq!(<Impl<()> as Tr<i32>>::f(&app), "0");
    assert_eq!(<Impl<()> as Tr2<3>>::g(&app), 3);
}
