//! C03 ("sync or async ... any return type"): an `async fn` that never returns (`-> !`),
//! e.g. a worker loop. Fine on stable Rust as a plain function, but the generated trait
//! method is `fn run(&self) -> impl Future<Output = !> + Send`, and `!` as a generic
//! argument is the unstable `never_type` (E0658).
#![allow(unused)]
use entrait::*;

pub trait A {
    fn a(&self) -> i32;
}
pub struct App;
impl A for Impl<App> {
    fn a(&self) -> i32 {
        7
    }
}

// control: plain Rust accepts the signature
async fn plain(deps: &impl A) -> ! {
    loop {
        std::future::pending::<()>().await;
    }
}

// control: the sync form is accepted by entrait
mod sync_control {
    use super::*;
    #[entrait(Tr)]
    fn run_forever(deps: &impl A) -> ! {
        loop {}
    }
}

#[entrait(RunForever)]
async fn run_forever(deps: &impl A) -> ! {
    loop {
        std::future::pending::<()>().await;
    }
}

fn assert_send<T: Send>(t: T) -> T {
    t
}

#[test]
fn method_exists() {
    let app = Impl::new(App);
    // only build the future, never poll it
    let _fut = assert_send(app.run_forever());
}
