#!/bin/sh
# usage: run.sh <path of an entrait checkout>
# exits 0 iff the demonstration shows CORRECT behaviour (demo compiles and its tests pass)
set -u
CHECKOUT="${1:?usage: run.sh <checkout>}"
HERE="$(cd "$(dirname "$0")" && pwd)"
cp "$HERE/demo.rs" "$CHECKOUT/tests/h8_defect4.rs" || exit 2
cd "$CHECKOUT" || exit 2
cargo test --offline --test h8_defect4
STATUS=$?
rm -f "$CHECKOUT/tests/h8_defect4.rs"
exit $STATUS
