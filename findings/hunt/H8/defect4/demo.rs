//! C03: in an entraited module every type parameter of every function becomes a parameter
//! of the one trait, so each method gets the type parameters of its *siblings* as well:
//! a function without any generics can no longer be called with method syntax.
#![allow(unused)]
use entrait::*;

pub trait A {
    fn a(&self) -> i32;
}
pub struct App;
impl A for Impl<App> {
    fn a(&self) -> i32 {
        7
    }
}

#[entrait(pub Tr)]
mod m {
    use super::*;
    pub fn get<T: Default>(deps: &impl A, key: &str) -> (i32, T) {
        (deps.a(), T::default())
    }
    /// no generics at all
    pub fn ping(deps: &impl A) -> i32 {
        deps.a()
    }
}

#[test]
fn ping_is_callable() {
    let app = Impl::new(App);
    assert_eq!(m::ping(&app), 7);
    // E0283 `type annotations needed`: the call is `<Impl<App> as Tr<?T>>::ping`
    assert_eq!(app.ping(), 7);
}
