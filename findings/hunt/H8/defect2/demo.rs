//! C03: named-generic dependency + where-clause in which one predicate (`T::Item: Clone`)
//! depends on another one (`T: Iterator`).
#![allow(unused)]
use entrait::*;

pub trait A {
    fn a(&self) -> i32;
}
pub struct App;
impl A for Impl<App> {
    fn a(&self) -> i32 {
        7
    }
}

#[entrait(Tr)]
fn f<D, T>(deps: &D, t: T) -> Vec<T::Item>
where
    D: A,
    T: Iterator,
    T::Item: Clone,
{
    t.collect()
}

// The very same function with `&impl A` instead of `D` does compile:
mod control {
    use super::*;
    #[entrait(Tr)]
    fn f<T>(deps: &impl A, t: T) -> Vec<T::Item>
    where
        T: Iterator,
        T::Item: Clone,
    {
        t.collect()
    }
}

#[test]
fn works() {
    let app = Impl::new(App);
    assert_eq!(app.f([1, 2].into_iter()), vec![1, 2]);
    assert_eq!(f(&app, [1, 2].into_iter()), vec![1, 2]);
}
