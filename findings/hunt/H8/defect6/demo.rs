//! C03 ("lifetime relations and return type"): a sync function returning `impl Trait`
//! that does NOT borrow from its dependency becomes a method whose return type DOES
//! borrow from `&self` (edition <= 2021, which is what entrait itself uses).
#![allow(unused)]
use entrait::*;

pub trait A {
    fn a(&self) -> i32;
}
pub struct App;
impl A for Impl<App> {
    fn a(&self) -> i32 {
        7
    }
}

#[entrait(Tr)]
fn f(deps: &impl A, n: u8) -> impl Iterator<Item = u8> {
    0..n
}

#[test]
fn returned_value_outlives_the_dependency() {
    // the function: fine
    let direct = {
        let app = Impl::new(App);
        f(&app, 3)
    };
    assert_eq!(direct.count(), 3);

    // the generated method: E0597 `app` does not live long enough
    let via_trait = {
        let app = Impl::new(App);
        app.f(3)
    };
    assert_eq!(via_trait.count(), 3);
}
