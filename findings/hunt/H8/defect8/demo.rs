//! C02 (impl blocks): an inner attribute at the top of an entraited impl block is legal
//! Rust, but the macro rejects the whole block ("expected square brackets").
#![allow(unused)]
use entrait::*;

pub struct App;

#[entrait(TrImpl, delegate_by = DelegateTr)]
pub trait Tr {
    fn f(&self) -> i32;
}

pub struct X;

#[entrait]
impl TrImpl for X {
    #![allow(dead_code)]

    fn f<D>(deps: &D) -> i32 {
        1
    }
}

impl DelegateTr<Self> for App {
    type Target = X;
}

// control: the same attribute is fine on a plain impl block
pub struct Y;
impl Y {
    #![allow(dead_code)]
    fn g() {}
}

#[test]
fn works() {
    assert_eq!(Impl::new(App).f(), 1);
}
