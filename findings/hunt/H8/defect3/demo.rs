//! C03: a `?Sized` relaxation written in the where-clause (legal for a fn's own type
//! parameter) stays on the generated *method*, while the parameter is moved to the *trait*.
#![allow(unused)]
use entrait::*;

pub trait A {
    fn a(&self) -> i32;
}
pub struct App;
impl A for Impl<App> {
    fn a(&self) -> i32 {
        7
    }
}

mod impl_dep {
    use super::*;
    #[entrait(Tr)]
    fn f<T>(deps: &impl A, t: &T) -> String
    where
        T: ?Sized + ToString,
    {
        t.to_string()
    }
    #[test]
    fn works() {
        assert_eq!(Impl::new(App).f("str is unsized"), f(&Impl::new(App), "str is unsized"));
    }
}

mod named_dep {
    use super::*;
    #[entrait(Tr)]
    fn f<D, T>(deps: &D, t: &T) -> String
    where
        D: A,
        T: ?Sized + ToString,
    {
        t.to_string()
    }
}

// control: the inline spelling compiles
mod control {
    use super::*;
    #[entrait(Tr)]
    fn f<T: ?Sized + ToString>(deps: &impl A, t: &T) -> String {
        t.to_string()
    }
}
