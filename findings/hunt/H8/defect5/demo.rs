//! C05 / C03: concrete dependency that is a generic instantiation with an `impl Trait` argument.
#![allow(unused)]
use entrait::*;

pub trait A {
    fn a(&self) -> i32;
}
pub struct App;
impl A for App {
    fn a(&self) -> i32 {
        7
    }
}
pub struct Holder<T>(pub T);

#[entrait(pub Tr)]
fn f(deps: &Holder<impl A>, x: i32) -> i32 {
    deps.0.a() + x
}

// control: the desugared spelling works and gives the leaf trait of C05
mod control {
    use super::*;
    #[entrait(pub Tr)]
    fn f<T: A>(deps: &Holder<T>, x: i32) -> i32 {
        deps.0.a() + x
    }
    #[test]
    fn works() {
        assert_eq!(Impl::new(Holder(App)).f(1), f(&Holder(App), 1));
    }
}

#[test]
fn works() {
    assert_eq!(Impl::new(Holder(App)).f(1), f(&Holder(App), 1));
}
