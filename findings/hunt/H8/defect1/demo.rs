//! C03: a shared-reference dependency whose `&` is wrapped in parentheses, or arrives
//! inside a `$t:ty` macro fragment (an invisible group), is turned into a BY-VALUE receiver.
#![allow(unused)]
use entrait::*;

pub trait A {
    fn a(&self) -> i32;
}
pub struct App;
impl A for Impl<App> {
    fn a(&self) -> i32 {
        7
    }
}

// (a) legal Rust, only an `unused_parens` warning
mod paren {
    use super::*;

    #[entrait(Tr)]
    #[allow(unused_parens)]
    fn f(deps: (&impl A), x: i32) -> i32 {
        deps.a() + x
    }

    #[test]
    fn same_call_type() {
        let app = Impl::new(App);
        assert_eq!(app.f(1), f(&app, 1));
        let _p: fn(&Impl<App>, i32) -> i32 = <Impl<App> as Tr>::f;
    }
}

// (b) the whole dependency type, including the `&`, is a macro argument
mod fragment {
    use super::*;

    macro_rules! gen {
        ($t:ty) => {
            #[entrait(Tr)]
            fn f(deps: $t, x: i32) -> i32 {
                deps.a() + x
            }
        };
    }
    gen!(&impl A);

    #[test]
    fn same_call_type() {
        let app = Impl::new(App);
        assert_eq!(app.f(1), f(&app, 1));
        let _p: fn(&Impl<App>, i32) -> i32 = <Impl<App> as Tr>::f;
    }
}
