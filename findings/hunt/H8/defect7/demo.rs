//! C03 (`unsafe` qualifier): the delegating method of an `unsafe fn` calls the function
//! without an `unsafe` block. Under `#![deny(unsafe_op_in_unsafe_fn)]` (warn-by-default
//! in edition 2024, commonly denied) the expansion does not compile, and the user has no
//! way to fix the generated code.
#![deny(unsafe_op_in_unsafe_fn)]
#![allow(unused)]
use entrait::*;

pub trait A {
    fn a(&self) -> i32;
}
pub struct App;
impl A for Impl<App> {
    fn a(&self) -> i32 {
        7
    }
}

#[entrait(Tr)]
unsafe fn f(deps: &impl A, p: *const i32) -> i32 {
    // the user's own code obeys the lint
    unsafe { *p + deps.a() }
}

#[test]
fn works() {
    let x = 1;
    assert_eq!(unsafe { Impl::new(App).f(&x) }, 8);
}
