//! The only documented argument of `#[entrait(..)] impl` is `ref` (`#[entrait(ref?)]`), yet
//! `dyn` and `ref dyn` are accepted silently as further spellings of it.
#![allow(dead_code, unused)]
use entrait::*;

#[entrait(TrImpl, delegate_by = ref)]
pub trait Tr { fn f(&self, a: i32) -> i32; }

pub struct X;
#[entrait(dyn)] // undocumented; behaves like `ref`
impl TrImpl for X { fn f(_deps: &impl std::any::Any, a: i32) -> i32 { a * 2 } }

pub struct Y;
#[entrait(ref dyn)] // undocumented, two keywords without a comma; behaves like `ref`
impl TrImpl for Y { fn f(_deps: &impl std::any::Any, a: i32) -> i32 { a * 3 } }

struct App(X);
impl AsRef<dyn TrImpl<Self>> for App { fn as_ref(&self) -> &dyn TrImpl<Self> { &self.0 } }

fn main() {
    assert_eq!(Impl::new(App(X)).f(21), 42);
    println!("dyn / ref dyn accepted on an impl block");
}
