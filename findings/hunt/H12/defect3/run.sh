#!/bin/bash
# usage: run.sh <checkout>; exit 0 iff the undocumented `dyn` / `ref dyn` arguments are rejected
set -u
CO="$1"; HERE="$(cd "$(dirname "$0")" && pwd)"
cp "$HERE/demo.rs" "$CO/examples/hunt_d3.rs"
cd "$CO"
cargo run --offline --example hunt_d3 > /tmp/hunt_d3.log 2>&1; R=$?
rm -f examples/hunt_d3.rs
grep -E "^error|accepted on an impl" /tmp/hunt_d3.log | head -5
if [ $R -ne 0 ] && [ "$(grep -c '^error' /tmp/hunt_d3.log)" -ge 2 ]; then echo "OK: rejected"; exit 0; fi
echo "DEFECT: undocumented arguments accepted (cargo exit $R)"; exit 1
