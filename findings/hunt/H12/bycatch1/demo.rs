// NOT one of C10/C11/C17 - by-catch while testing unimock wiring through macro_rules.
// `#[entrait]` written in a macro_rules body, the trait passed in as `$item:item`:
// the forwarding body `self.as_ref().f(x)` is produced with call-site (= macro definition) hygiene while the
// `&self` receiver comes from the macro argument -> E0424. Same family as the fixed fn case (commit 23bc12a),
// but in entrait_trait/mod.rs::gen_delegation_method (`quote! { self.as_ref()... }`).
#![allow(dead_code, unused)]
use entrait::*;
macro_rules! mk {
    ($($item:item)*) => { $( #[entrait] $item )* };
}
mk!(pub trait Tr { fn f(&self, x: i32) -> i32; });
#[test]
fn t() {}
