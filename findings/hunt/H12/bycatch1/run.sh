#!/bin/bash
set -u
CO="$1"; HERE="$(cd "$(dirname "$0")" && pwd)"
cp "$HERE/demo.rs" "$CO/tests/hunt_bycatch1.rs"; cd "$CO"
cargo test --offline --test hunt_bycatch1 > /tmp/hunt_bycatch1.log 2>&1; R=$?
rm -f tests/hunt_bycatch1.rs; grep -E "^error" /tmp/hunt_bycatch1.log | head -3; exit $R
