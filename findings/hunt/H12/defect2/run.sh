#!/bin/bash
# usage: run.sh <checkout>; exit 0 iff `no_deps` on a module is rejected with a diagnostic
set -u
CO="$1"; HERE="$(cd "$(dirname "$0")" && pwd)"
cp "$HERE/demo.rs" "$CO/examples/hunt_d2.rs"
cd "$CO"
cargo run --offline --example hunt_d2 > /tmp/hunt_d2.log 2>&1; R=$?
rm -f examples/hunt_d2.rs
grep -E "^error|no_deps accepted" /tmp/hunt_d2.log | head -5
if [ $R -ne 0 ] && grep -qE "^error: .*(no_deps|[Uu]nsupported option)" /tmp/hunt_d2.log; then echo "OK: rejected"; exit 0; fi
echo "DEFECT: option accepted on an undocumented target (cargo exit $R)"; exit 1
