//! `no_deps` is documented for target `fn` only (options table in src/lib.rs), but it is
//! silently accepted on a module, where it changes the meaning of every function in it.
#![allow(dead_code, unused)]
use entrait::*;

pub trait Clock { fn now(&self) -> u64; }

#[entrait(pub Billing, no_deps)] // `no_deps` is not documented for `mod`
mod billing {
    use super::Clock;
    // written as an ordinary entrait function with a dependency parameter ...
    pub fn due(deps: &impl Clock, days: u64) -> u64 { deps.now() + days }
}

struct App;
impl Clock for App { fn now(&self) -> u64 { 100 } }

fn main() {
    // ... but the module-level `no_deps` was accepted without a word and turned `deps` into a
    // plain argument: the trait method is `fn due(&self, deps: &impl Clock, days: u64)`.
    let app = Impl::new(App);
    assert_eq!(app.due(&App, 1), 101);
    println!("no_deps accepted on a module");
}
