#!/bin/bash
# usage: run.sh <checkout>; exit 0 iff `entrait(args, export)` and `entrait_export(args)` behave the same
# on a trait (both build and run, with the exported mock present in the non-test build).
set -u
CO="$1"; HERE="$(cd "$(dirname "$0")" && pwd)"
cp "$HERE/demo.rs" "$CO/examples/hunt_d1_option.rs"
sed 's|^#\[entrait(mockall, export)\] // SPELLING|#[entrait_export(mockall)] // SPELLING|' "$HERE/demo.rs" > "$CO/examples/hunt_d1_variant.rs"
grep -q '^#\[entrait_export(mockall)\]' "$CO/examples/hunt_d1_variant.rs" || { echo "sed failed"; exit 2; }
cd "$CO"
cargo run --offline --example hunt_d1_variant > /tmp/hunt_d1_variant.log 2>&1; V=$?
cargo run --offline --example hunt_d1_option  > /tmp/hunt_d1_option.log  2>&1; O=$?
rm -f examples/hunt_d1_option.rs examples/hunt_d1_variant.rs
echo "entrait_export(mockall)   on a trait: exit $V"; grep -E "^error|exported mock present" /tmp/hunt_d1_variant.log | head -3
echo "entrait(mockall, export)  on a trait: exit $O"; grep -E "^error|exported mock present" /tmp/hunt_d1_option.log | head -3
if [ $V -eq 0 ] && [ $O -eq 0 ]; then echo "OK: both spellings export the mock"; exit 0; fi
echo "DEFECT: the two spellings of the same invocation differ (or neither exports)"; exit 1
