//! `export` on an entraited trait: the option spelling is rejected, the macro-variant spelling works.
//!
//! run.sh builds this file twice as an example (a NON-test build):
//!   1. as it is                       -> `#[entrait(mockall, export)]`
//!   2. with the marked line rewritten -> `#[entrait_export(mockall)]`
//! Both spellings are the same invocation (C17), and an exporting invocation carries its mock
//! derivation unconditionally (C10), so `MockGreeter` must exist in both builds.
#![allow(dead_code, unused)]
use entrait::*;

#[entrait(mockall, export)] // SPELLING
pub trait Greeter {
    fn greet(&self, who: u8) -> u8;
}

fn main() {
    // not a test build: only an exported mock is present here
    let mut mock = MockGreeter::new();
    mock.expect_greet().return_const(42u8);
    assert_eq!(mock.greet(1), 42);
    println!("exported mock present");
}
