// on the pinned tree: error: custom attribute panicked ... Found a non-ident pattern, this should be handled in signature.rs
use entrait::*;
#[entrait]
trait Tr { fn f(&self, a: i32, _: u8); }
