#![allow(unused)]
use entrait::*;
use std::any::Any;
pub struct W(pub i32);

// a parameter named like the function (renamed to `foo_`) next to a pattern that binds `foo_`
#[entrait(Foo)]
fn foo(_: &impl Any, foo: i32, W(foo_): W) -> i32 { foo + foo_ }

#[entrait(Bar, no_deps)]
fn bar(W(bar_): W, bar: i32) -> i32 { bar * bar_ }

#[test]
fn t() {
    let app = Impl::new(());
    assert_eq!(app.foo(1, W(2)), 3);
    assert_eq!(app.bar(W(3), 4), 12);
}
