use entrait::*;
#[entrait(Sum)]
fn sum<D, const N: usize>(_d: &D, a: [u8; N]) -> usize { a.iter().map(|x| *x as usize).sum() }
#[entrait(Len, no_deps)]
fn len<const N: usize, T>(a: [T; N]) -> usize { a.len() }
#[test]
fn t() { let app = Impl::new(()); assert_eq!(app.sum([1, 2, 3]), 6); assert_eq!(app.len(["a", "b"]), 2); }
