#![allow(unused)]
mod outer {
    pub mod parent {
        use entrait::*;
        #[entrait(pub(super) Tr)]
        mod m {
            pub fn f(_deps: &impl std::any::Any) -> i32 { 7 }
        }
        #[entrait(pub(self) Tr2)]
        mod m2 {
            pub fn f2(_deps: &impl std::any::Any) -> i32 { 8 }
        }
        #[entrait(pub(in super::super) Tr3)]
        mod m3 {
            pub fn f3(_deps: &impl std::any::Any) -> i32 { 9 }
        }
        #[entrait(pub(in crate::outer) Tr4)]
        mod m4 {
            pub fn f4(_deps: &impl std::any::Any) -> i32 { 10 }
        }
        pub fn call2() -> i32 { entrait::Impl::new(()).f2() }
    }
    use parent::Tr;
    use parent::Tr4;
    pub fn call() -> i32 { entrait::Impl::new(()).f() + entrait::Impl::new(()).f4() }
}
use outer::parent::Tr3;
#[test]
fn t() { assert_eq!(outer::call(), 17); assert_eq!(outer::parent::call2(), 8); assert_eq!(entrait::Impl::new(()).f3(), 9); }
