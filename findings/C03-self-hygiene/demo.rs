//! H4 extra defect 8 (outside C08/C02/C13; spans/hygiene): using entrait from a
//! macro_rules macro that receives the trait name as a parameter does not compile:
//! the `&self` receiver of the generated method carries the span of the `deps` parameter
//! (macro definition site) while the `self` in the forwarding call carries the span of the
//! trait identifier (macro call site) => E0424 "`self` value is a keyword only available in
//! methods with a `self` parameter".
#![allow(dead_code)]
use entrait::*;
use std::any::Any;

macro_rules! define {
    ($tr:ident) => {
        #[entrait($tr)]
        fn f(_deps: &impl Any) -> i32 {
            1
        }
    };
}
define!(Tr);

macro_rules! define_mod {
    ($tr:ident) => {
        #[entrait($tr)]
        mod m {
            pub fn g(_deps: &impl std::any::Any) -> i32 {
                2
            }
        }
    };
}
define_mod!(Tr2);

#[test]
fn t() {
    assert_eq!(Impl::new(()).f(), 1);
    assert_eq!(Impl::new(()).g(), 2);
}
