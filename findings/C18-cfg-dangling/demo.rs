// fails to compile on the pinned tree: error[E0425]: cannot find function `f` in this scope
use entrait::*;
#[entrait(Tr)]
mod m {
    #[cfg(any())]
    pub fn f(_d: &impl std::any::Any) {}
    pub fn g(_d: &impl std::any::Any) -> i32 { 1 }
}
#[test]
fn t() { assert_eq!(Impl::new(()).g(), 1); }
