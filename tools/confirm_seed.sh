#!/bin/bash
# usage: tools/confirm_seed.sh <seed>  — confirm in a scratch worktree that a seeded change (1) applies, (2) keeps the
# repository's own suite green, (3) makes its demonstration fail, while (4) the demonstration passes without it.
seed=$1
dir=/verif/seeded/$seed
wt=/var/tmp/vxlogs/confirm-$seed
log=$dir/confirm.log
rm -rf $wt; git -C /repo worktree prune
git -C /repo worktree add --detach $wt HEAD >/dev/null 2>&1 || { echo "worktree failed"; exit 2; }
export CARGO_NET_OFFLINE=true
{
echo "== base: $(git -C /repo rev-parse --short HEAD)"
cd $wt; mkdir -p $wt/target
echo "== demo without change"; bash $dir/demo/run.sh $wt >/var/tmp/vxlogs/confirm-$seed.d0 2>&1; d0=$?; tail -3 /var/tmp/vxlogs/confirm-$seed.d0; echo "exit $d0"
git checkout -q -- . ; git clean -fdq -e target
echo "== apply"; git apply $dir/patch.diff; ap=$?; echo "exit $ap"
echo "== suite with change"; cargo test --workspace --no-fail-fast --offline >/var/tmp/vxlogs/confirm-$seed.s1 2>&1; s1=$?; grep -E "^test result" /var/tmp/vxlogs/confirm-$seed.s1; echo "exit $s1"
passed=$(grep -E "^test result" /var/tmp/vxlogs/confirm-$seed.s1 | sed 's/.*ok\. \([0-9]*\) passed.*/\1/' | paste -sd+ | bc)
echo "== demo with change"; bash $dir/demo/run.sh $wt >/var/tmp/vxlogs/confirm-$seed.d1 2>&1; d1=$?; grep -E "^error|panicked|FAILED|failed" /var/tmp/vxlogs/confirm-$seed.d1 | head -5; echo "exit $d1"
} > $log 2>&1
cd /verif
ok=false; if [ "$d0" = 0 ] && [ "$ap" = 0 ] && [ "$s1" = 0 ] && [ "$d1" != 0 ] && [ "$passed" = 40 ]; then ok=true; fi
python3 - "$seed" "$ok" "$d0" "$ap" "$s1" "$d1" "$passed" <<'PY'
import json,sys,os,re
seed,ok,d0,ap,s1,d1,passed=sys.argv[1:8]
d='/verif/seeded/'+seed
readme=open(d+'/AGENT_README.md').read() if os.path.exists(d+'/AGENT_README.md') else ''
meta={"seed":seed,"property":seed.split('-')[0],"confirmed":ok=='true',
 "base_commit":os.popen('git -C /repo rev-parse --short HEAD').read().strip(),
 "what_i_ran":["bash demo/run.sh <scratch worktree>   (unchanged tree) -> exit %s"%d0,"git apply patch.diff -> exit %s"%ap,
   "cargo test --workspace --no-fail-fast --offline (with change) -> exit %s, %s tests passed"%(s1,passed),"bash demo/run.sh <scratch worktree>   (with change) -> exit %s"%d1],
 "needs_to_manifest":"see AGENT_README.md (written by the sub-agent that produced the change)"}
old=json.load(open(d+'/meta.json')) if os.path.exists(d+'/meta.json') else {}
old.update(meta)
json.dump(old,open(d+'/meta.json','w'),indent=1)
print(seed,"confirmed" if ok=='true' else "NOT CONFIRMED", d0,ap,s1,d1,passed)
PY
git -C /repo worktree remove --force $wt
