#!/bin/sh
# usage: tools/try_benign.sh <benign-dir-name>  — apply a behaviour-preserving refactoring to a scratch copy of /repo and
# run every claimed check against it; any VIOLATION line is a false alarm
b=$1
scratch=/var/tmp/vx-benign-$b
rm -rf $scratch; mkdir -p $scratch
rsync -a --exclude target --exclude .git /repo/ $scratch/
( cd $scratch && git apply /verif/benign/$b/patch.diff ) || { echo "$b: patch does not apply"; rm -rf $scratch; exit 2; }
cd /verif
alarms=0; partial=0; hard=0
for p in ${VX_PROPS:-C01 C02 C03 C04 C05 C06 C07 C08 C09 C10 C11 C12 C13 C15 C16 C17 C18 C19}; do
  VX_CACHE=1 VX_SCRATCH_ID=$b VX_REPO=$scratch VX_SCRATCH_OUT=$scratch/out ./vx check $p > $scratch/out.$p 2> $scratch/err.$p; rc=$?
  if grep -q "^VIOLATION" $scratch/out.$p; then alarms=$((alarms+1)); echo "  FALSE ALARM $b / $p:"; grep "violated:" $scratch/err.$p | head -3 | cut -c1-300; fi
  if grep -q "^UNDECIDED (partial)" $scratch/out.$p; then partial=$((partial+1)); fi
  if [ $rc = 2 ]; then hard=$((hard+1)); echo "  exit 2 $b / $p: $(grep '^UNDECIDED' $scratch/out.$p | head -2 | cut -c1-200)"; fi
done
echo "== $b: false alarms in $alarms checks, partially undecided in $partial, exit-2 in $hard (of 18)"
rm -rf $scratch /verif/build/scratch-$b /verif/build/units-scratch-$b
