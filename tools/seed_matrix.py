#!/usr/bin/env python3
"""Run every seeded change against the check of its own property (on a scratch copy of /repo) and record
which back end reports the violation. Writes seeded/<seed>/meta.json (detected_by) and seeded/MATRIX.md."""
import json, os, re, shutil, subprocess, sys
ROOT = os.path.dirname(os.path.dirname(os.path.abspath(__file__)))
seeds = sorted(d for d in os.listdir(os.path.join(ROOT, "seeded")) if os.path.isdir(os.path.join(ROOT, "seeded", d)))
only = sys.argv[1:]
from concurrent.futures import ThreadPoolExecutor


def one(s):
    prop = s.split("-")[0]
    scratch = "/var/tmp/vx-matrix-%s" % s
    if os.path.isdir(scratch):
        shutil.rmtree(scratch)
    os.makedirs(scratch)
    subprocess.run(["rsync", "-a", "--exclude", "target", "--exclude", ".git", "/repo/", scratch + "/"], check=True)
    ap = subprocess.run(["git", "apply", os.path.join(ROOT, "seeded", s, "patch.diff")], cwd=scratch, stdout=subprocess.PIPE, stderr=subprocess.PIPE, text=True)
    if ap.returncode != 0:
        shutil.rmtree(scratch)
        return (s, prop, "patch does not apply", [], "")
    # VX_SCRATCH_ID gives every scratch copy its own build directories, so that several can be checked at once
    env = dict(os.environ, VX_REPO=scratch, VX_SCRATCH_OUT=scratch + "/out", VX_SCRATCH_ID=s)
    p = subprocess.run([os.path.join(ROOT, "vx"), "check", prop], env=env, stdout=subprocess.PIPE, stderr=subprocess.PIPE, text=True)
    layers = sorted(set(re.findall(r"violated: \[(E\d)/", p.stderr)))
    first = next((l.strip() for l in p.stderr.splitlines() if "violated:" in l), "")
    nofail = "no-failing-input-found" in p.stdout and not any("VIOLATION" in l and "no-failing-input-found" not in l for l in p.stdout.splitlines())
    row = (s, prop, {0: "MISSED", 1: "detected", 2: "undecided"}.get(p.returncode, "exit %d" % p.returncode), layers, first[:220])
    mp = os.path.join(ROOT, "seeded", s, "meta.json")
    meta = json.load(open(mp)) if os.path.exists(mp) else {"seed": s, "property": prop}
    meta["check_result"] = {"cmd": "./vx check %s (on a scratch copy of /repo with patch.diff applied)" % prop, "exit": p.returncode, "detected_by": layers, "first_violation": first[:400], "concrete_failing_input": not nofail}
    json.dump(meta, open(mp, "w"), indent=1)
    shutil.rmtree(scratch)
    for d in ("scratch-" + s, "units-scratch-" + s):
        shutil.rmtree(os.path.join(ROOT, "build", d), ignore_errors=True)
    print(s, row[2], layers, flush=True)
    return row


todo = [s for s in seeds if not only or s in only]
with ThreadPoolExecutor(max_workers=int(os.environ.get("VX_JOBS", "4"))) as ex:
    rows = list(ex.map(one, todo))
with open(os.path.join(ROOT, "seeded", "MATRIX.md"), "w") as f:
    f.write("# Seeded changes vs. checks\n\nEach change was produced by a sub-agent that saw only the property text, confirmed in a scratch worktree (compiles, the repository's 40 tests pass, its demonstration fails with the change and passes without), and then run through `./vx check <property>`.\n\n| seed | property | result | reported by | first violated obligation |\n|---|---|---|---|---|\n")
    done = {r[0]: r for r in rows}
    for s in seeds:
        if s in done:
            _, prop, res, layers, first = done[s]
        else:
            # rows of seeds not re-run now come from their recorded result
            mp = os.path.join(ROOT, "seeded", s, "meta.json")
            cr = (json.load(open(mp)) if os.path.exists(mp) else {}).get("check_result")
            if not cr:
                continue
            prop, layers, first = s.split("-")[0], cr.get("detected_by", []), cr.get("first_violation", "")[:220]
            res = {0: "MISSED", 1: "detected", 2: "undecided"}.get(cr.get("exit"), "exit %s" % cr.get("exit"))
        f.write("| %s | %s | %s | %s | %s |\n" % (s, prop, res, "+".join(layers), first.replace("|", "\\|")))
print("missed:", [r[0] for r in rows if r[2] != "detected"])
