#!/bin/sh
# usage: tools/try_seed.sh <seed-dir-name> <prop> [<prop>...]   — apply a seeded patch to /repo, run checks, always revert
seed=$1; shift
cd /repo || exit 2
if ! git diff --quiet; then echo "/repo has uncommitted changes; refusing"; exit 2; fi
git apply /verif/seeded/$seed/patch.diff || { echo "patch does not apply"; exit 2; }
trap 'git -C /repo checkout -- . ; git -C /repo clean -fdq entrait_macros tests 2>/dev/null' EXIT INT TERM
cd /verif
for p in "$@"; do
  ./vx check $p >/tmp/try_seed_$p.out 2>/tmp/try_seed_$p.err; rc=$?
  echo "== $seed / $p : exit $rc"; grep -E "^VIOLATION|^UNDECIDED|^KNOWN|^vx:" /tmp/try_seed_$p.out | head -8; grep "violated:" /tmp/try_seed_$p.err | head -5
done
