#!/bin/sh
# usage: tools/try_seed.sh <seed-dir-name> <prop> [<prop>...]
# applies a seeded patch to a scratch copy of /repo (never to /repo itself) and runs the checks against that copy;
# evidence / replay files of these runs go to the scratch copy, not to /verif/evidence
seed=$1; shift
scratch=/var/tmp/vx-try-$seed
rm -rf $scratch; mkdir -p $scratch
rsync -a --exclude target --exclude .git /repo/ $scratch/
( cd $scratch && git apply /verif/seeded/$seed/patch.diff ) || { echo "patch does not apply"; rm -rf $scratch; exit 2; }
cd /verif
for p in "$@"; do
  VX_REPO=$scratch VX_SCRATCH_OUT=$scratch/out ./vx check $p >/tmp/try_seed_$p.out 2>/tmp/try_seed_$p.err; rc=$?
  echo "== $seed / $p : exit $rc"; grep -E "^VIOLATION|^UNDECIDED|^KNOWN|^vx:" /tmp/try_seed_$p.out | head -8; grep "violated:" /tmp/try_seed_$p.err | head -5
done
rm -rf $scratch
