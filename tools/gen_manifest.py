#!/usr/bin/env python3
"""Regenerate MANIFEST.json from vxlib/props.py (claimed checks) and NOT_APPLICABLE below."""
import json, os, sys
ROOT = os.path.dirname(os.path.dirname(os.path.abspath(__file__)))
sys.path.insert(0, os.path.join(ROOT, "vxlib"))
import props as P

props = [json.loads(l) for l in open(os.path.join(ROOT, "properties.jsonl"))]
checks = []
for p in props:
    pid = p["id"]
    if pid not in P.PROPS:
        continue
    s = P.PROPS[pid]
    m = P.MANIFEST_TEXT.get(pid, {})
    checks.append({
        "property_id": pid,
        "quick_cmd": "./vx check %s --tier quick" % pid,
        "thorough_cmd": "./vx check %s --tier thorough" % pid,
        "evidence_file": "/verif/evidence/%s.json" % pid,
        "replay_cmd_template": "./vx replay {path}",
        "engine": "vx",
        "level_claimed": {"category": s["level"], "text": m.get("text", s["explanation"]), "design_ref": m.get("design_ref", "DESIGN.md section 3/" + pid)},
        "level_note": m.get("note", "Trusted: Verus/Z3/Kani/rustc; the assumed dependency contracts in specs/prelude.rs; normalisations N1-N7; A0 (token-level facts imply the behavioural statement). Functions built on quote!/parse_quote!/ParseStream are covered by bounded replay only and are not counted as proved."),
        "technique": m.get("technique", "contract-based deductive verification: Verus contracts on the real function text (+ Kani harness / bounded contract replay where stated)"),
    })
na = [{"property_id": k, "reason": v} for k, v in P.NOT_APPLICABLE.items()]
claimed = {c["property_id"] for c in checks}
for p in props:
    if p["id"] not in claimed and p["id"] not in P.NOT_APPLICABLE:
        na.append({"property_id": p["id"], "reason": "not yet claimed: contracts for this property are still being built (DESIGN.md section 7)"})
man = {
    "version": 1,
    "setup_cmd": "./vx setup",
    "hooks": {"guard": "audunhalland_entrait_verif", "enable": "no hooks are needed: contracts are spliced into a copy of the sources by tools/assemble, /repo is never instrumented",
              "baseline_off_cmd": "cd /repo && cargo test --workspace --no-fail-fast --offline", "source_commits": [], "add_only": True},
    "engines": [
        {"name": "vx", "path": "/verif/vx", "serves_properties": sorted(claimed),
         "kind_free_text": "E1 Verus on the real text of entrait_macros spliced with contracts/*.vspec; E3 Kani harness for set_fallbacks; E2 bounded contract replay (labelled stand-in)"}],
    "checks": checks,
    "not_applicable": sorted(na, key=lambda x: x["property_id"]),
    "notes": "Genuine defects repaired in /repo by `fix:` commits and known findings are listed in /verif/known_findings.json; see DESIGN.md section 2.8.",
}
json.dump(man, open(os.path.join(ROOT, "MANIFEST.json"), "w"), indent=1)
print("claimed:", sorted(claimed))
