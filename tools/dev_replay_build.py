#!/usr/bin/env python3
"""dev helper: regenerate and build the replay crate under build/replay/dev"""
import sys, os
sys.path.insert(0, os.path.dirname(os.path.dirname(os.path.abspath(__file__))))
from vxlib import e2
dest = os.path.join(e2.BUILD, 'replay', 'dev')
e2.generate(dest)
rc, err = e2.build(dest, print)
if rc:
    print(err[-6000:])
sys.exit(rc)
