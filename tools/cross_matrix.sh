#!/bin/bash
# usage: tools/cross_matrix.sh <seed>...  — for each seeded change, which properties' checks raise a VIOLATION?
# (development aid: measures how precisely violations are attributed to properties)
for s in "$@"; do
  scratch=/var/tmp/vx-cross-$s
  rm -rf $scratch; mkdir -p $scratch
  rsync -a --exclude target --exclude .git /repo/ $scratch/
  ( cd $scratch && git apply /verif/seeded/$s/patch.diff ) || { echo "$s: patch does not apply"; rm -rf $scratch; continue; }
  hits=""
  for p in C01 C02 C03 C04 C05 C06 C07 C08 C09 C10 C11 C12 C13 C15 C16 C17 C18 C19; do
    if VX_CACHE=1 VX_SCRATCH_ID=x$s VX_REPO=$scratch VX_SCRATCH_OUT=$scratch/out /verif/vx check $p 2>/dev/null | grep -q "^VIOLATION"; then hits="$hits $p"; fi
  done
  echo "$s ->$hits"
  rm -rf $scratch /verif/build/scratch-x$s /verif/build/units-scratch-x$s
done
