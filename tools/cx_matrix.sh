#!/bin/bash
# dev measurement: which seeded changes do the cross-product contracts alone detect?
# builds the replay crate against a scratch copy of /repo with each seed applied (never /repo itself)
out=/var/tmp/vxlogs/cx_matrix2.txt; mkdir -p /var/tmp/vxlogs; : > $out
seeds=${@:-$(ls /verif/seeded | grep '^C')}
for seed in $seeds; do
  d=/verif/seeded/$seed
  scratch=/var/tmp/vx-cx-$seed
  rm -rf $scratch; mkdir -p $scratch
  rsync -a --exclude target --exclude .git /repo/ $scratch/
  ( cd $scratch && git apply $d/patch.diff ) || { echo "$seed patch-fails" >> $out; rm -rf $scratch; continue; }
  res=$(cd /verif && VX_REPO=$scratch VX_SCRATCH_OUT=$scratch/out python3 - <<P
import sys,os,subprocess,json
sys.path.insert(0,'/verif')
from vxlib import e2
dest=os.path.join('$scratch','rp')
e2.TARGET='/verif/build/replay-target-cx'
e2.ENV['CARGO_TARGET_DIR']=e2.TARGET
e2.generate(dest)
rc,err=e2.build(dest,print)
if rc!=0:
    print('build-failed'); sys.exit()
exe=os.path.join(e2.TARGET,'debug','vx-replay')
o=[]
for prop,c in (('C01','cx_fn_grammar'),('C06','cx_trait_grammar'),('C08','cx_mod_grammar')):
    p=subprocess.run([exe,'--prop',prop,'--tier','quick','--only',c,'--out',dest+'/r.json'],stdout=subprocess.PIPE,stderr=subprocess.PIPE,text=True)
    r=json.load(open(dest+'/r.json'))
    cl=sorted(set(f['class'] for k in r['contracts'] for f in k['failures']))
    o.append(c+':'+(','.join(cl) or '-'))
print(' '.join(o))
P
)
  echo "$seed $res" >> $out
  rm -rf $scratch
done
echo done >> $out
