#!/usr/bin/env python3
"""Print (markdown) the per-property coverage table from evidence/*.json; used to refresh DESIGN.md section 8.8."""
import json, glob, os
ROOT = os.path.dirname(os.path.dirname(os.path.abspath(__file__)))
rows = []
for f in sorted(glob.glob(os.path.join(ROOT, "evidence", "C*.json"))):
    e = json.load(open(f)); c = e["coverage"]
    fns = [x for x in c.get("functions_under_contract", [])]
    rows.append("| %s | %s | %d | %d/%d | %s | %d | %s | %s |" % (
        e["property_id"], e["level"], len(fns), c["discharged"], c["obligations"],
        ", ".join("%s" % k["name"] for k in c.get("kani", [])) or "-",
        len(c.get("bounded", [])), c.get("bounded_cases", 0),
        "; ".join(sorted(set(k["id"].split(":")[1] for k in c.get("known_findings", [])))) or "-"))
print("| property | level | E1 functions | clauses discharged | E3 harnesses | E2 contracts | E2 cases (quick) | known findings re-exhibited |")
print("|---|---|---|---|---|---|---|---|")
print("\n".join(rows))
