//! vx-assemble: splice Verus annotations (contracts/*.vspec) into the *real* text of
//! /repo/entrait_macros/src, producing a single-crate "unit" that `verus root.rs` checks.
//!
//! Nothing executable is re-typed: every byte of the unit that is not an insertion listed
//! in map.json (kind != "norm") or a normalisation (kind == "norm", N1..N6 of DESIGN.md
//! section 2.1) comes from the repository file at the same relative position.
//!
//! Exit status: 0 ok, 2 lost anchor / unsupported shape (never a verdict).

use std::collections::{BTreeMap, BTreeSet};
use std::fs;
use std::path::{Path, PathBuf};
use syn::spanned::Spanned;
use syn::visit::{self, Visit};

// ---------------------------------------------------------------- vspec model

#[derive(Clone, Debug)]
struct Dir {
    kind: String,
    args: Vec<String>,
    text: String,
    line: usize,
}

#[derive(Clone, Debug, Default)]
struct FnStanza {
    name: String,
    tags: Vec<String>,
    dirs: Vec<Dir>,
    line: usize,
}

#[derive(Clone, Debug, Default)]
struct ItemStanza {
    selector: String,
    units: Vec<String>,
    tags: Vec<String>,
    dirs: Vec<Dir>, // attr, pre, post
    fns: Vec<FnStanza>,
    external: Vec<String>,
    verify: Vec<String>,
    all_external: bool,
    n2_into: Option<String>,
    line: usize,
}

#[derive(Clone, Debug, Default)]
struct FileSpec {
    file: String,
    vspec: String,
    header: String,
    footer: String,
    drop_items: Vec<String>,
    items: Vec<ItemStanza>,
}

thread_local! { static SHAPES: std::cell::RefCell<BTreeMap<String, (usize, usize)>> = std::cell::RefCell::new(BTreeMap::new()); }
thread_local! { static SHAPES_OUT: std::cell::RefCell<BTreeMap<String, (usize, usize)>> = std::cell::RefCell::new(BTreeMap::new()); }
thread_local! { static FORCE_DEMOTE: std::cell::RefCell<Vec<String>> = std::cell::RefCell::new(vec![]); }
thread_local! { static LOST: std::cell::RefCell<Vec<String>> = std::cell::RefCell::new(vec![]); }
fn lost(msg: String) {
    eprintln!("vx-assemble: {}", msg);
    LOST.with(|l| l.borrow_mut().push(msg));
}

fn f_name_of(n: &str) -> String {
    n.to_string()
}

fn fail(msg: &str) -> ! {
    std::panic::panic_any(msg.to_string())
}

fn die(msg: &str) -> ! {
    eprintln!("vx-assemble: {}", msg);
    std::process::exit(2)
}

fn split_args(s: &str) -> Vec<String> {
    // whitespace separated, with "double quoted" strings kept together
    let mut out = vec![];
    let mut cur = String::new();
    let mut in_q = false;
    let mut had_q = false;
    let mut chars = s.chars().peekable();
    while let Some(c) = chars.next() {
        if in_q {
            if c == '\\' {
                if let Some(n) = chars.next() {
                    cur.push(n);
                }
            } else if c == '"' {
                in_q = false;
            } else {
                cur.push(c);
            }
        } else if c == '"' {
            in_q = true;
            had_q = true;
        } else if c.is_whitespace() {
            if !cur.is_empty() || had_q {
                out.push(std::mem::take(&mut cur));
                had_q = false;
            }
        } else {
            cur.push(c);
        }
    }
    if !cur.is_empty() || had_q {
        out.push(cur);
    }
    out
}

fn parse_vspec(path: &Path) -> Vec<FileSpec> {
    let text = fs::read_to_string(path).unwrap_or_else(|e| die(&format!("read {:?}: {}", path, e)));
    let vname = path.file_name().unwrap().to_string_lossy().to_string();
    let mut files: Vec<FileSpec> = vec![];
    // (kind, args, line, text)
    let mut raw: Vec<Dir> = vec![];
    for (i, line) in text.lines().enumerate() {
        if line.starts_with("@#") {
            continue;
        }
        if let Some(rest) = line.strip_prefix('@') {
            let mut parts = rest.splitn(2, char::is_whitespace);
            let kind = parts.next().unwrap_or("").to_string();
            let args = split_args(parts.next().unwrap_or(""));
            raw.push(Dir { kind, args, text: String::new(), line: i + 1 });
        } else if let Some(last) = raw.last_mut() {
            last.text.push_str(line);
            last.text.push('\n');
        } else if !line.trim().is_empty() {
            die(&format!("{}:{}: text before first directive", vname, i + 1));
        }
    }
    for d in raw {
        let where_ = format!("{}:{}", vname, d.line);
        match d.kind.as_str() {
            "file" => files.push(FileSpec { file: d.args.join(" "), vspec: vname.clone(), ..Default::default() }),
            "header" => files.last_mut().unwrap_or_else(|| die(&where_)).header.push_str(&d.text),
            "footer" => files.last_mut().unwrap_or_else(|| die(&where_)).footer.push_str(&d.text),
            "drop-item" => files.last_mut().unwrap_or_else(|| die(&where_)).drop_items.push(d.args.join(" ")),
            "item" => files.last_mut().unwrap_or_else(|| die(&where_)).items.push(ItemStanza {
                selector: d.args.join(" "),
                line: d.line,
                ..Default::default()
            }),
            "wrap" => {
                let f = files.last_mut().unwrap_or_else(|| die(&where_));
                for sel in d.args.join(" ").split(';') {
                    let sel = sel.trim();
                    if !sel.is_empty() {
                        f.items.push(ItemStanza { selector: sel.to_string(), line: d.line, ..Default::default() });
                    }
                }
            }
            _ => {
                let f = files.last_mut().unwrap_or_else(|| die(&where_));
                let it = f.items.last_mut().unwrap_or_else(|| die(&format!("{}: directive outside @item", where_)));
                match d.kind.as_str() {
                    "unit" => it.units = d.args.clone(),
                    "tags" => {
                        if let Some(fnst) = it.fns.last_mut() {
                            fnst.tags = d.args.clone();
                        } else {
                            it.tags = d.args.clone();
                        }
                    }
                    "attr" | "pre" | "post" | "inner-start" => it.dirs.push(d.clone()),
                    "external" => it.external.extend(d.args.clone()),
                    "all-external" => it.all_external = true,
                    "verify" => it.verify.extend(d.args.clone()),
                    "n2-into" => it.n2_into = Some(d.args.join(" ")),
                    "fn" => it.fns.push(FnStanza { name: d.args.get(0).cloned().unwrap_or_default(), line: d.line, ..Default::default() }),
                    "ret" | "spec" | "fnattr" | "body-start" | "body-end" | "before" | "after" | "loop" | "loop-start"
                    | "loop-end" | "after-loop" | "closure" | "closure-start" | "closure-end" | "shape" | "no-n2" => {
                        let fnst = it.fns.last_mut().unwrap_or_else(|| die(&format!("{}: @{} outside @fn", where_, d.kind)));
                        fnst.dirs.push(d.clone());
                    }
                    other => die(&format!("{}: unknown directive @{}", where_, other)),
                }
            }
        }
    }
    files
}

// ---------------------------------------------------------------- text helpers

struct Src {
    text: String,
    line_starts: Vec<usize>,
}

impl Src {
    fn new(text: String) -> Self {
        let mut line_starts = vec![0];
        for (i, b) in text.bytes().enumerate() {
            if b == b'\n' {
                line_starts.push(i + 1);
            }
        }
        Src { text, line_starts }
    }
    fn off(&self, lc: proc_macro2::LineColumn) -> usize {
        let ls = self.line_starts[lc.line - 1];
        let line = &self.text[ls..];
        let mut o = ls;
        for (n, ch) in line.chars().enumerate() {
            if n == lc.column {
                break;
            }
            o += ch.len_utf8();
        }
        o
    }
    fn start<T: Spanned>(&self, t: &T) -> usize {
        self.off(t.span().start())
    }
    fn end<T: Spanned>(&self, t: &T) -> usize {
        self.off(t.span().end())
    }
    fn line_of(&self, off: usize) -> usize {
        match self.line_starts.binary_search(&off) {
            Ok(i) => i + 1,
            Err(i) => i,
        }
    }
}

#[derive(Clone, Debug)]
struct Edit {
    pos: usize,
    del: usize,
    text: String,
    seq: usize,
    meta: BTreeMap<String, String>,
}

struct Edits {
    v: Vec<Edit>,
}

impl Edits {
    fn new() -> Self {
        Edits { v: vec![] }
    }
    fn ins(&mut self, pos: usize, text: String, meta: BTreeMap<String, String>) {
        let seq = self.v.len();
        self.v.push(Edit { pos, del: 0, text, seq, meta });
    }
    fn rep(&mut self, pos: usize, del: usize, text: String, meta: BTreeMap<String, String>) {
        let seq = self.v.len();
        self.v.push(Edit { pos, del, text, seq, meta });
    }
    /// apply; returns (new text, edits with final byte offset of the inserted text)
    fn apply(mut self, src: &str) -> (String, Vec<(Edit, usize)>) {
        self.v.sort_by(|a, b| a.pos.cmp(&b.pos).then(a.seq.cmp(&b.seq)));
        let mut out = String::with_capacity(src.len() + 4096);
        let mut placed = vec![];
        let mut cur = 0usize;
        for e in self.v {
            if e.pos < cur {
                die(&format!("overlapping edits at byte {} ({:?})", e.pos, e.meta));
            }
            out.push_str(&src[cur..e.pos]);
            let at = out.len();
            out.push_str(&e.text);
            cur = e.pos + e.del;
            placed.push((e, at));
        }
        out.push_str(&src[cur..]);
        (out, placed)
    }
}

fn meta(pairs: &[(&str, &str)]) -> BTreeMap<String, String> {
    pairs.iter().map(|(k, v)| (k.to_string(), v.to_string())).collect()
}

fn norm_ws(s: &str) -> String {
    s.split_whitespace().collect::<Vec<_>>().join(" ")
}

fn jesc(s: &str) -> String {
    let mut o = String::with_capacity(s.len() + 2);
    o.push('"');
    for c in s.chars() {
        match c {
            '"' => o.push_str("\\\""),
            '\\' => o.push_str("\\\\"),
            '\n' => o.push_str("\\n"),
            '\r' => o.push_str("\\r"),
            '\t' => o.push_str("\\t"),
            c if (c as u32) < 0x20 => o.push_str(&format!("\\u{:04x}", c as u32)),
            c => o.push(c),
        }
    }
    o.push('"');
    o
}

// ---------------------------------------------------------------- item selection

fn type_last_ident(ty: &syn::Type) -> String {
    match ty {
        syn::Type::Path(p) => p.path.segments.last().map(|s| s.ident.to_string()).unwrap_or_default(),
        syn::Type::Reference(r) => type_last_ident(&r.elem),
        _ => String::new(),
    }
}

fn item_key(item: &syn::Item) -> Option<String> {
    Some(match item {
        syn::Item::Fn(f) => format!("fn {}", f.sig.ident),
        syn::Item::Struct(s) => format!("struct {}", s.ident),
        syn::Item::Enum(e) => format!("enum {}", e.ident),
        syn::Item::Trait(t) => format!("trait {}", t.ident),
        syn::Item::Type(t) => format!("type {}", t.ident),
        syn::Item::Const(c) => format!("const {}", c.ident),
        syn::Item::Mod(m) => format!("mod {}", m.ident),
        syn::Item::Macro(m) => format!("macro {}", m.ident.as_ref().map(|i| i.to_string()).unwrap_or_default()),
        syn::Item::Impl(i) => {
            let ty = type_last_ident(&i.self_ty);
            match &i.trait_ {
                Some((_, path, _)) => format!("impl {} for {}", path.segments.last().map(|s| s.ident.to_string()).unwrap_or_default(), ty),
                None => format!("impl {}", ty),
            }
        }
        syn::Item::Use(u) => format!("use {}", quote::ToTokens::to_token_stream(&u.tree).to_string().replace(' ', "")),
        syn::Item::ExternCrate(e) => format!("extern crate {}", e.ident),
        _ => return None,
    })
}

/// returns index into file.items
fn find_item(file: &syn::File, selector: &str, ctx: &str) -> Option<usize> {
    let (sel, nth) = match selector.rsplit_once('#') {
        Some((a, n)) if n.trim().parse::<usize>().is_ok() => (a.trim(), n.trim().parse::<usize>().unwrap()),
        _ => (selector.trim(), 0usize),
    };
    let hits: Vec<usize> = file
        .items
        .iter()
        .enumerate()
        .filter(|(_, it)| item_key(it).as_deref() == Some(sel))
        .map(|(i, _)| i)
        .collect();
    if hits.is_empty() {
        lost(format!("LOST-ANCHOR {}: item `{}` not found", ctx, selector));
        return None;
    }
    if nth == 0 {
        if hits.len() > 1 {
            lost(format!("LOST-ANCHOR {}: item `{}` is ambiguous ({} matches); use #n", ctx, selector, hits.len()));
            return None;
        }
        Some(hits[0])
    } else {
        match hits.get(nth - 1) {
            Some(h) => Some(*h),
            None => {
                lost(format!("LOST-ANCHOR {}: item `{}` has no match #{}", ctx, sel, nth));
                None
            }
        }
    }
}

// ---------------------------------------------------------------- fn body visitors

#[derive(Default)]
struct BodyShape<'a> {
    stmts: Vec<&'a syn::Stmt>,
    blocks_of_stmt: Vec<&'a syn::Block>,
    loops: Vec<LoopRef<'a>>,
    closures: Vec<&'a syn::ExprClosure>,
    span_calls: Vec<&'a syn::ExprMethodCall>,
    cur_block: Vec<&'a syn::Block>,
}

enum LoopRef<'a> {
    For(&'a syn::ExprForLoop),
    While(&'a syn::ExprWhile),
    Loop(&'a syn::ExprLoop),
}

impl<'a> LoopRef<'a> {
    fn body(&self) -> &'a syn::Block {
        match self {
            LoopRef::For(f) => &f.body,
            LoopRef::While(w) => &w.body,
            LoopRef::Loop(l) => &l.body,
        }
    }
}

impl<'a> Visit<'a> for BodyShape<'a> {
    fn visit_block(&mut self, b: &'a syn::Block) {
        self.cur_block.push(b);
        for s in &b.stmts {
            self.stmts.push(s);
            self.blocks_of_stmt.push(b);
            self.visit_stmt(s);
        }
        self.cur_block.pop();
    }
    fn visit_expr_for_loop(&mut self, e: &'a syn::ExprForLoop) {
        self.loops.push(LoopRef::For(e));
        visit::visit_expr_for_loop(self, e);
    }
    fn visit_expr_while(&mut self, e: &'a syn::ExprWhile) {
        self.loops.push(LoopRef::While(e));
        visit::visit_expr_while(self, e);
    }
    fn visit_expr_loop(&mut self, e: &'a syn::ExprLoop) {
        self.loops.push(LoopRef::Loop(e));
        visit::visit_expr_loop(self, e);
    }
    fn visit_expr_closure(&mut self, e: &'a syn::ExprClosure) {
        self.closures.push(e);
        visit::visit_expr_closure(self, e);
    }
    fn visit_expr_method_call(&mut self, e: &'a syn::ExprMethodCall) {
        if e.method == "span" && e.args.is_empty() && e.turbofish.is_none() {
            self.span_calls.push(e);
        }
        visit::visit_expr_method_call(self, e);
    }
    fn visit_item(&mut self, _i: &'a syn::Item) {
        // nested items (fn-in-fn, struct-in-fn) are not descended into
    }
}

fn is_punctuator_ctor(e: &syn::Expr) -> bool {
    if let syn::Expr::Call(c) = e {
        if let syn::Expr::Path(p) = c.func.as_ref() {
            let segs: Vec<String> = p.path.segments.iter().map(|s| s.ident.to_string()).collect();
            let n = segs.len();
            if n >= 1 && segs[n - 1] == "comma_sep" {
                return true;
            }
            if n >= 2 && segs[n - 1] == "new" && segs[n - 2] == "Punctuator" {
                return true;
            }
        }
    }
    false
}

// ---------------------------------------------------------------- selected fns of an item

struct SelFn<'a> {
    name: String,
    sig: &'a syn::Signature,
    block: &'a syn::Block,
    whole_start: usize,
    whole_end: usize,
    stanza: Option<&'a FnStanza>,
}

fn selected_fns<'a>(src: &Src, item: &'a syn::Item, st: &'a ItemStanza, strict: bool) -> (Vec<SelFn<'a>>, Vec<(usize, String)>) {
    // returns selected fns and the list of (offset, fn name) of methods that become #[verifier::external]
    let mut sel = vec![];
    let mut ext = vec![];
    match item {
        syn::Item::Fn(f) => {
            let stanza = st.fns.iter().find(|s| s.name == "." || s.name == f.sig.ident.to_string());
            if !st.all_external {
                sel.push(SelFn { name: f.sig.ident.to_string(), sig: &f.sig, block: &f.block, whole_start: src.start(f), whole_end: src.end(f), stanza });
            }
        }
        syn::Item::Impl(imp) => {
            let is_trait_impl = imp.trait_.is_some();
            let mut seen = BTreeSet::new();
            for ii in &imp.items {
                if let syn::ImplItem::Fn(m) = ii {
                    let name = m.sig.ident.to_string();
                    let stanza = st.fns.iter().find(|s| s.name == name);
                    let chosen = !st.all_external
                        && !st.external.contains(&name)
                        && (stanza.is_some() || st.verify.contains(&name) || st.verify.iter().any(|v| v == "*") || is_trait_impl);
                    if chosen {
                        seen.insert(name.clone());
                        sel.push(SelFn { name, sig: &m.sig, block: &m.block, whole_start: src.start(m), whole_end: src.end(m), stanza });
                    } else {
                        ext.push((src.start(m), name));
                    }
                }
            }
            for s in &st.fns {
                if strict && !seen.contains(&s.name) {
                    lost(format!("LOST-ANCHOR: fn `{}` not found in item `{}` [tags={}]", s.name, st.selector, if s.tags.is_empty() { st.tags.join(",") } else { s.tags.join(",") }));
                }
            }
            for v in st.verify.iter().filter(|v| *v != "*") {
                if strict && !seen.contains(v) {
                    lost(format!("LOST-ANCHOR: fn `{}` (verify) not found in item `{}`", v, st.selector));
                }
            }
        }
        _ => {}
    }
    (sel, ext)
}

// ---------------------------------------------------------------- pass 1: normalisations

fn pass1(fs_: &FileSpec, text: &str, norms: &mut Vec<String>) -> String {
    let src = Src::new(text.to_string());
    let file = syn::parse_file(&src.text).unwrap_or_else(|e| die(&format!("parse {}: {}", fs_.file, e)));
    let mut edits = Edits::new();
    let ctx = format!("{} ({})", fs_.file, fs_.vspec);

    if fs_.file == "lib.rs" {
        // N7: the lint attribute forbids the `unsafe` that Verus' own expansion of `assume_specification` uses
        if let Some(p) = src.text.find("#![forbid(unsafe_code)]") {
            edits.rep(p, "#![forbid(unsafe_code)]".len(), "#![allow(unused, unexpected_cfgs)]\n#![feature(allocator_api)]".to_string(), meta(&[("kind", "norm")]));
            norms.push("N7 lib.rs: `#![forbid(unsafe_code)]` -> `#![allow(unused)]` in the unit root (lint only; the repository file keeps it)".to_string());
        }
    }
    for sel in &fs_.drop_items {
        let idx = match find_item(&file, sel, &ctx) { Some(i) => i, None => continue };
        let it = &file.items[idx];
        let (s, e) = (src.start(it), src.end(it));
        edits.rep(s, e - s, String::new(), meta(&[("kind", "norm")]));
        norms.push(format!("{}: item `{}` dropped from the unit (proc-macro entry plumbing)", fs_.file, sel));
    }

    for st in &fs_.items {
        let idx = match LOST.with(|l| l.borrow().len()) { n => { let r = find_item(&file, &st.selector, &ctx); LOST.with(|l| l.borrow_mut().truncate(n)); match r { Some(i) => i, None => continue } } };
        let item = &file.items[idx];
        let (istart, iend) = (src.start(item), src.end(item));

        // N4: #[expect(..)] -> #[allow(..)] inside selected items
        {
            let seg = &src.text[istart..iend];
            let mut from = 0;
            while let Some(p) = seg[from..].find("#[expect(") {
                let at = istart + from + p + 2;
                edits.rep(at, "expect".len(), "allow".to_string(), meta(&[("kind", "norm")]));
                norms.push(format!("N4 {}:{} #[expect(..)] -> #[allow(..)]", fs_.file, src.line_of(at)));
                from += p + 9;
            }
        }

        // N2a: Drop impl becomes inherent method vx_drop
        if let Some(target) = &st.n2_into {
            let imp = match item {
                syn::Item::Impl(i) => i,
                _ => die(&format!("{}: @n2-into on non-impl", ctx)),
            };
            let m = imp
                .items
                .iter()
                .find_map(|ii| match ii {
                    syn::ImplItem::Fn(m) if m.sig.ident == "drop" => Some(m),
                    _ => None,
                })
                .unwrap_or_else(|| die(&format!("LOST-ANCHOR {}: fn drop not found in `{}`", ctx, st.selector)));
            let mtext = &src.text[src.start(m)..src.end(m)];
            let renamed = mtext.replacen("fn drop", "pub(crate) fn vx_drop", 1);
            let tidx = match find_item(&file, target, &ctx) { Some(i) => i, None => continue };
            let timp = match &file.items[tidx] {
                syn::Item::Impl(i) => i,
                _ => die(&format!("{}: @n2-into target is not an impl", ctx)),
            };
            let close = src.off(timp.brace_token.span.close().start());
            edits.ins(close, format!("\n    {}\n", renamed), meta(&[("kind", "norm")]));
            edits.rep(istart, iend - istart, String::new(), meta(&[("kind", "norm")]));
            norms.push(format!(
                "N2 {}:{} `{}`: body of Drop::drop moved verbatim into inherent method vx_drop of `{}`; the Drop impl is removed from the unit",
                fs_.file,
                src.line_of(istart),
                st.selector,
                target
            ));
            continue;
        }

        let (sel, _ext) = selected_fns(&src, item, st, false);
        for f in &sel {
            // N1 wildcard parameters
            let mut n = 0;
            for arg in &f.sig.inputs {
                if let syn::FnArg::Typed(pt) = arg {
                    if let syn::Pat::Wild(w) = pt.pat.as_ref() {
                        let at = src.start(w);
                        edits.rep(at, 1, format!("_vx{}", n), meta(&[("kind", "norm")]));
                        norms.push(format!("N1 {}:{} fn {}: parameter pattern `_` -> `_vx{}`", fs_.file, src.line_of(at), f.name, n));
                        n += 1;
                    }
                }
            }
            let mut shape = BodyShape::default();
            shape.visit_block(f.block);
            // N5 .span()
            let mut span_ranges: Vec<(usize, usize)> = vec![];
            for mc in &shape.span_calls {
                let rs = src.start(&mc.receiver);
                let re = src.end(&mc.receiver);
                let ce = src.end(*mc);
                // skip nested (inner handled by outer text? no: nested .span().span() does not occur); guard overlap
                if span_ranges.iter().any(|(a, b)| rs < *b && *a < ce) {
                    die(&format!("{}: nested .span() calls in fn {} are not supported by N5", ctx, f.name));
                }
                span_ranges.push((rs, ce));
                edits.ins(rs, "crate::vx::span_of(&(".to_string(), meta(&[("kind", "norm")]));
                edits.rep(re, ce - re, "))".to_string(), meta(&[("kind", "norm")]));
                norms.push(format!("N5 {}:{} fn {}: `e.span()` -> `crate::vx::span_of(&(e))`", fs_.file, src.line_of(rs), f.name));
            }
            // N2b explicit drop of Punctuator locals
            let no_n2 = f.stanza.map(|s| s.dirs.iter().any(|d| d.kind == "no-n2")).unwrap_or(false);
            if !no_n2 {
                let mut per_block: BTreeMap<usize, Vec<(String, &syn::Block, usize)>> = BTreeMap::new();
                for (i, s) in shape.stmts.iter().enumerate() {
                    if let syn::Stmt::Local(l) = s {
                        if let Some(init) = &l.init {
                            if is_punctuator_ctor(&init.expr) {
                                let name = match &l.pat {
                                    syn::Pat::Ident(pi) => pi.ident.to_string(),
                                    _ => die(&format!("{}: N2 needs a plain binding for the Punctuator in fn {}", ctx, f.name)),
                                };
                                let b = shape.blocks_of_stmt[i];
                                let close = src.off(b.brace_token.span.close().start());
                                per_block.entry(close).or_default().push((name, b, i));
                            }
                        }
                    }
                }
                for (close, mut locals) in per_block {
                    locals.reverse();
                    let b = locals[0].1;
                    // side conditions: block must not end in a value-producing tail expression, no return/?/break/continue after decl
                    if let Some(syn::Stmt::Expr(e, None)) = b.stmts.last() {
                        let blocklike = matches!(
                            e,
                            syn::Expr::ForLoop(_) | syn::Expr::While(_) | syn::Expr::Loop(_) | syn::Expr::If(_) | syn::Expr::Match(_) | syn::Expr::Block(_)
                        );
                        if !blocklike {
                            FORCE_DEMOTE.with(|fd| fd.borrow_mut().push(format!("{}|{}|{}", fs_.file, st.selector, f.name)));
                            continue;
                        }
                    }
                    let decl_off = locals.iter().map(|(_, _, i)| src.start(shape.stmts[*i])).min().unwrap();
                    let tail_text = &src.text[decl_off..close];
                    // crude but conservative token scan
                    let toks: proc_macro2::TokenStream = tail_text.parse().unwrap_or_default();
                    fn scan(ts: proc_macro2::TokenStream, bad: &mut bool, depth_closure: bool) {
                        for tt in ts {
                            match tt {
                                proc_macro2::TokenTree::Ident(i) => {
                                    let s = i.to_string();
                                    if s == "return" || s == "break" || s == "continue" {
                                        *bad = true;
                                    }
                                }
                                proc_macro2::TokenTree::Punct(p) if p.as_char() == '?' => *bad = true,
                                proc_macro2::TokenTree::Group(g) => scan(g.stream(), bad, depth_closure),
                                _ => {}
                            }
                        }
                    }
                    let mut bad = false;
                    scan(toks, &mut bad, false);
                    if bad {
                        FORCE_DEMOTE.with(|fd| fd.borrow_mut().push(format!("{}|{}|{}", fs_.file, st.selector, f.name)));
                        continue;
                    }
                    let mut t = String::new();
                    for (name, _, _) in &locals {
                        t.push_str(&format!("\n{}.vx_drop(); // N2: scope-end Drop made explicit\n", name));
                        norms.push(format!("N2 {}:{} fn {}: `{}.vx_drop();` inserted at the end of the declaring block", fs_.file, src.line_of(close), f.name, name));
                    }
                    edits.ins(close, t, meta(&[("kind", "norm")]));
                }
            }
        }
    }
    let (out, _) = edits.apply(&src.text);
    out
}

// ---------------------------------------------------------------- pass 2: annotations

fn find_stmt<'a>(src: &Src, shape: &BodyShape<'a>, d: &Dir, ctx: &str) -> &'a syn::Stmt {
    let prefix = norm_ws(d.args.get(0).map(|s| s.as_str()).unwrap_or(""));
    let nth = d.args.get(1).and_then(|s| s.trim_start_matches('#').parse::<usize>().ok()).unwrap_or(0);
    let hits: Vec<&syn::Stmt> = shape
        .stmts
        .iter()
        .copied()
        .filter(|s| norm_ws(&src.text[src.start(*s)..src.end(*s)]).starts_with(&prefix))
        .collect();
    if hits.is_empty() {
        fail(&format!("LOST-ANCHOR {}: no statement starts with `{}`", ctx, prefix));
    }
    if nth == 0 {
        if hits.len() > 1 {
            fail(&format!("LOST-ANCHOR {}: statement prefix `{}` is ambiguous ({} hits)", ctx, prefix, hits.len()));
        }
        hits[0]
    } else {
        hits.get(nth - 1).copied().unwrap_or_else(|| fail(&format!("LOST-ANCHOR {}: statement `{}` has no hit #{}", ctx, prefix, nth)))
    }
}

fn pass2(fs_: &FileSpec, text1: &str, is_root: bool, map: &mut Vec<BTreeMap<String, String>>, norms: &mut Vec<String>) -> String {
    let src = Src::new(text1.to_string());
    let file = syn::parse_file(&src.text).unwrap_or_else(|e| die(&format!("parse(pass2) {}: {}", fs_.file, e)));
    let mut edits = Edits::new();
    let fctx = format!("{} ({})", fs_.file, fs_.vspec);
    let mut fn_ranges: Vec<(usize, usize, BTreeMap<String, String>)> = vec![];

    // header: before the first item (after inner attributes / module docs)
    let header_pos = file.items.first().map(|i| src.start(i)).unwrap_or(src.text.len());
    let mut header = String::new();
    if !fs_.items.is_empty() || !fs_.header.is_empty() {
        header.push_str("#[allow(unused_imports)] use vstd::prelude::*;\n#[allow(unused_imports)] use vstd::std_specs::iter::*;\n");
        if !is_root {
            header.push_str("#[allow(unused_imports)] use crate::vx::*;\n");
        }
    }
    header.push_str(&fs_.header);
    if !header.is_empty() {
        edits.ins(header_pos, header, meta(&[("kind", "header"), ("file", &fs_.file)]));
    }
    if !fs_.footer.is_empty() {
        edits.ins(src.text.len(), format!("\n{}", fs_.footer), meta(&[("kind", "footer"), ("file", &fs_.file)]));
    }

    for st in &fs_.items {
        if st.n2_into.is_some() {
            continue; // removed in pass 1
        }
        let ictx = format!("{} item `{}`", fctx, st.selector);
        let idx = match find_item(&file, &st.selector, &fctx) {
            Some(i) => i,
            None => {
                let mut all: Vec<String> = st.tags.clone();
                for f in &st.fns { all.extend(f.tags.clone()); }
                all.sort(); all.dedup();
                lost(format!("LOST-ANCHOR-TAGS item `{}` [tags={}]", st.selector, all.join(",")));
                continue;
            }
        };
        let item = &file.items[idx];
        let (istart, iend) = (src.start(item), src.end(item));
        let tags = st.tags.join(",");
        let base = |kind: &str, d: Option<&Dir>, fname: &str, ftags: &str| -> BTreeMap<String, String> {
            let mut m = meta(&[("kind", kind), ("file", &fs_.file), ("item", &st.selector), ("vspec", &fs_.vspec)]);
            m.insert("tags".into(), if ftags.is_empty() { tags.clone() } else { ftags.to_string() });
            if !fname.is_empty() {
                m.insert("fn".into(), fname.to_string());
            }
            if let Some(d) = d {
                m.insert("vspec_line".into(), d.line.to_string());
                m.insert("args".into(), d.args.join(" "));
            }
            m
        };

        // wrapper open + attr + pre
        let mut open = String::from("verus! {\n");
        for d in st.dirs.iter().filter(|d| d.kind == "pre") {
            open.push_str(&d.text);
        }
        for d in st.dirs.iter().filter(|d| d.kind == "attr") {
            open.push_str(&d.text);
        }
        edits.ins(istart, open, base("item-open", None, "", ""));
        let mut close = String::from("\n");
        for d in st.dirs.iter().filter(|d| d.kind == "post") {
            close.push_str(&d.text);
        }
        close.push_str("} // verus!\n");
        edits.ins(iend, close, base("item-close", None, "", ""));

        // @inner-start: text right after the opening brace of an impl / trait
        for d in st.dirs.iter().filter(|d| d.kind == "inner-start") {
            let open_end = match item {
                syn::Item::Impl(i) => src.off(i.brace_token.span.open().end()),
                syn::Item::Trait(t) => src.off(t.brace_token.span.open().end()),
                _ => die(&format!("{}: @inner-start on an item without braces", ictx)),
            };
            edits.ins(open_end, format!("\n{}", d.text), base("inner", Some(d), "", ""));
        }
        // body-less trait method declarations: @ret / @spec go before the `;`
        if let syn::Item::Trait(t) = item {
            for fs_st in &st.fns {
                let m = t.items.iter().find_map(|ti| match ti {
                    syn::TraitItem::Fn(m) if m.sig.ident == fs_st.name.as_str() => Some(m),
                    _ => None,
                });
                let m = match m {
                    Some(m) => m,
                    None => {
                        lost(format!("LOST-ANCHOR: fn `{}` not found in trait `{}` [tags={}]", fs_st.name, st.selector, st.tags.join(",")));
                        continue;
                    }
                };
                let ftags = fs_st.tags.join(",");
                let mut fr = base("fn-range", None, &fs_st.name, &ftags);
                fr.insert("has_stanza".into(), "true".into());
                fn_ranges.push((src.start(m), src.end(m), fr));
                for d in &fs_st.dirs {
                    match d.kind.as_str() {
                        "ret" => {
                            let name = d.args.get(0).cloned().unwrap_or_else(|| "r".into());
                            if let syn::ReturnType::Type(_, ty) = &m.sig.output {
                                edits.ins(src.start(ty.as_ref()), format!("({}: ", name), base("ret", Some(d), &fs_st.name, &ftags));
                                edits.ins(src.end(ty.as_ref()), ")".to_string(), base("ret", Some(d), &fs_st.name, &ftags));
                            }
                        }
                        "spec" => {
                            let at = match (&m.default, &m.semi_token) {
                                (None, Some(semi)) => src.start(semi),
                                (Some(b), _) => src.off(b.brace_token.span.open().start()),
                                _ => die("trait fn without body or semi"),
                            };
                            edits.ins(at, format!("\n{}", d.text), base("spec", Some(d), &fs_st.name, &ftags));
                        }
                        other => die(&format!("{}: @{} not supported on trait method declarations", ictx, other)),
                    }
                }
            }
        }
        let (sel, ext) = selected_fns(&src, item, st, true);
        for (off, _name) in &ext {
            edits.ins(*off, "#[verifier::external] ".to_string(), base("external", None, "", ""));
        }
        if st.all_external {
            if let syn::Item::Fn(f) = item {
                edits.ins(src.start(f), "#[verifier::external] ".to_string(), base("external", None, "", ""));
            }
        }
        for f in &sel {
            {
                let mut sh = BodyShape::default();
                sh.visit_block(f.block);
                let key = format!("{}|{}|{}", fs_.file, st.selector, f.name);
                SHAPES_OUT.with(|m| m.borrow_mut().insert(key.clone(), (sh.loops.len(), sh.closures.len())));
                let expected = SHAPES.with(|m| m.borrow().get(&key).cloned());
                if let Some((l, c)) = expected {
                    if (l, c) != (sh.loops.len(), sh.closures.len()) {
                        FORCE_DEMOTE.with(|fd| {
                            if !fd.borrow().contains(&key) {
                                fd.borrow_mut().push(key.clone());
                            }
                        });
                    }
                }
            }
            let ftags = f.stanza.map(|s| s.tags.join(",")).unwrap_or_default();
            let mut fr = base("fn-range", None, &f.name, &ftags);
            fr.insert("has_stanza".into(), f.stanza.is_some().to_string());
            fn_ranges.push((f.whole_start, f.whole_end, fr));
            let stanza = match f.stanza {
                Some(s) => s,
                None => {
                    // a function verified without any annotation (e.g. a ToTokens impl checked against the
                    // trait-level contract) can still be demoted when Verus rejects a construct in it
                    let key = format!("{}|{}|{}", fs_.file, st.selector, f.name);
                    if FORCE_DEMOTE.with(|fd| fd.borrow().contains(&key)) {
                        lost(format!(
                            "UNSUPPORTED {} item `{}` fn {}: shape changed or Verus rejected a construct in this function => fn demoted to external_body (its obligations are undecided) [tags={}]",
                            fctx, st.selector, f.name, tags
                        ));
                        edits.ins(f.whole_start, "#[verifier::external_body] ".to_string(), base("demoted", None, &f.name, &ftags));
                    }
                    continue;
                }
            };
            let cctx = format!("{} fn {}", ictx, f.name);
            let mut shape = BodyShape::default();
            shape.visit_block(f.block);
            let body_open_start = src.off(f.block.brace_token.span.open().start());
            let body_open_end = src.off(f.block.brace_token.span.open().end());
            let body_close_start = src.off(f.block.brace_token.span.close().start());
            let saved = edits.v.len();
            let saved_norms = norms.len();
            let mut wrapped_closures: Vec<usize> = vec![];
            let forced_key = format!("{}|{}|{}", fs_.file, st.selector, f_name_of(&f.name));
            let forced = FORCE_DEMOTE.with(|fd| fd.borrow().contains(&forced_key));
            let res = std::panic::catch_unwind(std::panic::AssertUnwindSafe(|| {
                if forced {
                    fail(&format!("UNSUPPORTED {}: the function's shape (loops / closures) differs from the one its proof was written for, or Verus rejected a construct in it, or the N2 side condition does not hold", cctx));
                }
            for d in &stanza.dirs {
                let k = d.kind.as_str();
                // a loop / closure is selected by pre-order ordinal, or by a text fragment that its
                // header (loops: from the keyword to the body) or its whole source (closures) contains
                let idx_arg = |what: &str| -> usize {
                    let a0 = d.args.get(0).cloned().unwrap_or_default();
                    if let Ok(n) = a0.parse::<usize>() {
                        return n;
                    }
                    let needle = norm_ws(&a0);
                    if needle.is_empty() {
                        fail(&format!("{}: @{} needs an index or a text selector ({})", cctx, k, what));
                    }
                    let hits: Vec<usize> = if what.starts_with("loop") {
                        shape
                            .loops
                            .iter()
                            .enumerate()
                            .filter(|(_, l)| {
                                let (st, en) = match l {
                                    LoopRef::For(f) => (src.start(*f), src.off(f.body.brace_token.span.open().start())),
                                    LoopRef::While(w) => (src.start(*w), src.off(w.body.brace_token.span.open().start())),
                                    LoopRef::Loop(lp) => (src.start(*lp), src.off(lp.body.brace_token.span.open().start())),
                                };
                                norm_ws(&src.text[st..en]).contains(&needle)
                            })
                            .map(|(i, _)| i)
                            .collect()
                    } else {
                        shape.closures.iter().enumerate().filter(|(_, c)| norm_ws(&src.text[src.start(**c)..src.end(**c)]).contains(&needle)).map(|(i, _)| i).collect()
                    };
                    match hits.len() {
                        0 => fail(&format!("LOST-ANCHOR {}: no {} contains `{}`", cctx, what, needle)),
                        1 => hits[0],
                        _ => {
                            // several (nested) candidates: a closure selector picks the innermost one, i.e. the last in pre-order
                            if what.starts_with("closure") {
                                *hits.last().unwrap()
                            } else {
                                fail(&format!("LOST-ANCHOR {}: {} selector `{}` is ambiguous", cctx, what, needle))
                            }
                        }
                    }
                };
                match k {
                    "shape" => {
                        for a in &d.args {
                            if let Some(v) = a.strip_prefix("loops=") {
                                if v.parse::<usize>().ok() != Some(shape.loops.len()) {
                                    fail(&format!("LOST-ANCHOR {}: expected {} loops, found {}", cctx, v, shape.loops.len()));
                                }
                            } else if let Some(v) = a.strip_prefix("closures=") {
                                if v.parse::<usize>().ok() != Some(shape.closures.len()) {
                                    fail(&format!("LOST-ANCHOR {}: expected {} closures, found {}", cctx, v, shape.closures.len()));
                                }
                            }
                        }
                    }
                    "no-n2" => {}
                    "fnattr" => edits.ins(f.whole_start, d.text.clone(), base("fnattr", Some(d), &f.name, &ftags)),
                    "ret" => {
                        let name = d.args.get(0).cloned().unwrap_or_else(|| "r".into());
                        match &f.sig.output {
                            syn::ReturnType::Type(_, ty) => {
                                edits.ins(src.start(ty.as_ref()), format!("({}: ", name), base("ret", Some(d), &f.name, &ftags));
                                edits.ins(src.end(ty.as_ref()), ")".to_string(), base("ret", Some(d), &f.name, &ftags));
                            }
                            syn::ReturnType::Default => fail(&format!("LOST-ANCHOR {}: @ret but fn has no return type", cctx)),
                        }
                    }
                    "spec" => edits.ins(body_open_start, format!("\n{}", d.text), base("spec", Some(d), &f.name, &ftags)),
                    "body-start" => edits.ins(body_open_end, format!("\n{}", d.text), base("ghost", Some(d), &f.name, &ftags)),
                    "body-end" => edits.ins(body_close_start, format!("\n{}", d.text), base("ghost", Some(d), &f.name, &ftags)),
                    "before" => {
                        let s = find_stmt(&src, &shape, d, &cctx);
                        edits.ins(src.start(s), format!("{}\n", d.text.trim_end()), base("ghost", Some(d), &f.name, &ftags));
                    }
                    "after" => {
                        let s = find_stmt(&src, &shape, d, &cctx);
                        edits.ins(src.end(s), format!("\n{}", d.text), base("ghost", Some(d), &f.name, &ftags));
                    }
                    "loop" | "loop-start" | "loop-end" | "after-loop" => {
                        let i = idx_arg("loop ordinal");
                        let l = shape.loops.get(i).unwrap_or_else(|| fail(&format!("LOST-ANCHOR {}: loop {} not found", cctx, i)));
                        let b = l.body();
                        if k == "after-loop" {
                            edits.ins(src.off(b.brace_token.span.close().end()), format!("\n{}", d.text), base("ghost", Some(d), &f.name, &ftags));
                            continue;
                        }
                        match k {
                            "loop" => {
                                if let (Some(it), LoopRef::For(fl)) = (d.args.get(1), l) {
                                    edits.ins(src.start(fl.expr.as_ref()), format!("{}: ", it), base("loop-iter-name", Some(d), &f.name, &ftags));
                                }
                                edits.ins(src.off(b.brace_token.span.open().start()), format!("\n{}", d.text), base("invariant", Some(d), &f.name, &ftags));
                            }
                            "loop-start" => edits.ins(src.off(b.brace_token.span.open().end()), format!("\n{}", d.text), base("ghost", Some(d), &f.name, &ftags)),
                            _ => edits.ins(src.off(b.brace_token.span.close().start()), format!("\n{}", d.text), base("ghost", Some(d), &f.name, &ftags)),
                        }
                    }
                    "closure" | "closure-start" | "closure-end" => {
                        let i = idx_arg("closure ordinal");
                        let c = shape.closures.get(i).unwrap_or_else(|| fail(&format!("LOST-ANCHOR {}: closure {} not found", cctx, i)));
                        match (k, c.body.as_ref()) {
                            ("closure", syn::Expr::Block(b)) => {
                                edits.ins(src.start(b), format!("\n{}", d.text), base("closure-spec", Some(d), &f.name, &ftags));
                            }
                            ("closure-start", syn::Expr::Block(b)) => {
                                edits.ins(src.off(b.block.brace_token.span.open().end()), format!("\n{}", d.text), base("ghost", Some(d), &f.name, &ftags));
                            }
                            ("closure-end", syn::Expr::Block(b)) => {
                                edits.ins(src.off(b.block.brace_token.span.close().start()), format!("\n{}", d.text), base("ghost", Some(d), &f.name, &ftags));
                            }
                            (_, body) => {
                                // N6: a closure whose body is a bare expression gets braces so that it can carry
                                // its contract / ghost code. All directives of this closure are emitted together,
                                // in the order spec, `{`, start ... end, `}`.
                                if !wrapped_closures.contains(&i) {
                                    wrapped_closures.push(i);
                                    let mut pre = String::new();
                                    let mut start = String::new();
                                    let mut end = String::new();
                                    for d2 in &stanza.dirs {
                                        if !matches!(d2.kind.as_str(), "closure" | "closure-start" | "closure-end") || d2.args.get(0) != d.args.get(0) {
                                            continue;
                                        }
                                        match d2.kind.as_str() {
                                            "closure" => pre.push_str(&d2.text),
                                            "closure-start" => start.push_str(&d2.text),
                                            "closure-end" => end.push_str(&d2.text),
                                            _ => {}
                                        }
                                    }
                                    if !pre.is_empty() {
                                        edits.ins(src.start(body), format!("\n{}", pre), base("closure-spec", Some(d), &f.name, &ftags));
                                    }
                                    edits.ins(src.start(body), "{ ".to_string(), meta(&[("kind", "norm")]));
                                    if !start.is_empty() {
                                        edits.ins(src.start(body), format!("\n{}", start), base("ghost", Some(d), &f.name, &ftags));
                                    }
                                    if !end.is_empty() {
                                        edits.ins(src.end(body), ";".to_string(), meta(&[("kind", "norm")]));
                                        edits.ins(src.end(body), format!("\n{}", end), base("ghost", Some(d), &f.name, &ftags));
                                    }
                                    edits.ins(src.end(body), " }".to_string(), meta(&[("kind", "norm")]));
                                    norms.push(format!("N6 {} fn {}: closure {} body wrapped in braces to carry its contract", fs_.file, f.name, i));
                                }
                            }
                        }
                    }
                    other => fail(&format!("{}: unexpected fn directive @{}", cctx, other)),
                }
            }
            }));
            if let Err(e) = res {
                let msg = e.downcast_ref::<String>().cloned().unwrap_or_else(|| "anchor failure".to_string());
                edits.v.truncate(saved);
                norms.truncate(saved_norms);
                lost(format!("{} => fn demoted to external_body (its obligations are undecided) [tags={}]", msg, if ftags.is_empty() { tags.clone() } else { ftags.clone() }));
                // keep the contract (so callers still verify against it) but do not verify the body
                edits.ins(f.whole_start, "#[verifier::external_body] ".to_string(), base("demoted", None, &f.name, &ftags));
                for d in &stanza.dirs {
                    match d.kind.as_str() {
                        "ret" => {
                            let name = d.args.get(0).cloned().unwrap_or_else(|| "r".into());
                            if let syn::ReturnType::Type(_, ty) = &f.sig.output {
                                edits.ins(src.start(ty.as_ref()), format!("({}: ", name), base("ret", Some(d), &f.name, &ftags));
                                edits.ins(src.end(ty.as_ref()), ")".to_string(), base("ret", Some(d), &f.name, &ftags));
                            }
                        }
                        "spec" => edits.ins(body_open_start, format!("\n{}", d.text), base("spec-assumed", Some(d), &f.name, &ftags)),
                        _ => {}
                    }
                }
            }
            let _ = (body_open_end, body_close_start);
        }
    }

    // compute final offsets for fn ranges: offset mapping through edits
    let sorted: Vec<Edit> = {
        let mut v = edits.v.clone();
        v.sort_by(|a, b| a.pos.cmp(&b.pos).then(a.seq.cmp(&b.seq)));
        v
    };
    let map_off = |o: usize, inclusive: bool| -> usize {
        let mut delta: isize = 0;
        for e in &sorted {
            if e.pos < o || (inclusive && e.pos == o) {
                delta += e.text.len() as isize - e.del as isize;
            } else {
                break;
            }
        }
        (o as isize + delta) as usize
    };
    let fr_final: Vec<(usize, usize, BTreeMap<String, String>)> = fn_ranges.into_iter().map(|(s, e, m)| (map_off(s, false), map_off(e, true), m)).collect();

    let (out, placed) = edits.apply(&src.text);
    // erasure check: deleting every placed insertion gives back text1 exactly
    {
        let mut er = String::with_capacity(out.len());
        let mut cur = 0;
        for (e, at) in &placed {
            er.push_str(&out[cur..*at]);
            cur = at + e.text.len();
        }
        er.push_str(&out[cur..]);
        if er != src.text {
            die(&format!("ERASURE-MISMATCH in {}", fs_.file));
        }
    }
    let osrc = Src::new(out.clone());
    for (e, at) in placed {
        if e.meta.get("kind").map(|s| s.as_str()) == Some("norm") {
            continue;
        }
        let mut m = e.meta.clone();
        m.insert("line_start".into(), osrc.line_of(at).to_string());
        m.insert("line_end".into(), osrc.line_of(at + e.text.len().saturating_sub(1)).to_string());
        m.insert("text".into(), e.text.clone());
        map.push(m);
    }
    for (s, e, mut m) in fr_final {
        m.insert("line_start".into(), osrc.line_of(s).to_string());
        m.insert("line_end".into(), osrc.line_of(e.saturating_sub(1)).to_string());
        map.push(m);
    }
    out
}

// ---------------------------------------------------------------- driver

fn walk(dir: &Path, base: &Path, out: &mut Vec<PathBuf>) {
    let mut ents: Vec<_> = fs::read_dir(dir).unwrap_or_else(|e| die(&format!("read_dir {:?}: {}", dir, e))).filter_map(|e| e.ok()).collect();
    ents.sort_by_key(|e| e.path());
    for e in ents {
        let p = e.path();
        if p.is_dir() {
            walk(&p, base, out);
        } else if p.extension().map(|x| x == "rs").unwrap_or(false) {
            out.push(p.strip_prefix(base).unwrap().to_path_buf());
        }
    }
}

fn cmd_assemble(args: &BTreeMap<String, String>) {
    let srcdir = PathBuf::from(args.get("src").unwrap_or_else(|| die("--src")));
    let cdir = PathBuf::from(args.get("contracts").unwrap_or_else(|| die("--contracts")));
    let outdir = PathBuf::from(args.get("out").unwrap_or_else(|| die("--out")));
    let prelude = PathBuf::from(args.get("prelude").unwrap_or_else(|| die("--prelude")));
    let unit = args.get("unit").cloned().unwrap_or_else(|| "all".to_string());
    let demote: Vec<String> = args.get("demote").map(|d| d.split(';').filter(|x| !x.is_empty()).map(|x| x.to_string()).collect()).unwrap_or_default();
    FORCE_DEMOTE.with(|f| *f.borrow_mut() = demote);
    // shapes.lock: the number of loops and closures each function under contract had when its proof was written;
    // a function whose shape differs on the tree being checked is demoted (its proof cannot be attached)
    let lock_path = cdir.join("shapes.lock");
    if let Ok(t) = fs::read_to_string(&lock_path) {
        SHAPES.with(|m| {
            let mut m = m.borrow_mut();
            for line in t.lines() {
                let parts: Vec<&str> = line.rsplitn(3, ' ').collect();
                if parts.len() == 3 {
                    if let (Ok(c), Ok(l)) = (parts[0].parse::<usize>(), parts[1].parse::<usize>()) {
                        m.insert(parts[2].to_string(), (l, c));
                    }
                }
            }
        });
    }

    let mut specs: BTreeMap<String, FileSpec> = BTreeMap::new();
    let mut vs: Vec<_> = fs::read_dir(&cdir).unwrap_or_else(|e| die(&format!("{:?}: {}", cdir, e))).filter_map(|e| e.ok()).map(|e| e.path()).filter(|p| p.extension().map(|x| x == "vspec").unwrap_or(false)).collect();
    vs.sort();
    for v in vs {
        for mut f in parse_vspec(&v) {
            // unit filter: an item with @unit list is only active in those units; `all` takes everything
            if unit != "all" {
                f.items.retain(|it| it.units.is_empty() || it.units.iter().any(|u| *u == unit));
            }
            match specs.get_mut(&f.file) {
                Some(ex) => {
                    ex.header.push_str(&f.header);
                    ex.footer.push_str(&f.footer);
                    ex.items.extend(f.items);
                    ex.drop_items.extend(f.drop_items);
                }
                None => {
                    specs.insert(f.file.clone(), f);
                }
            }
        }
    }

    let mut files = vec![];
    walk(&srcdir, &srcdir, &mut files);
    let _ = fs::remove_dir_all(&outdir);
    fs::create_dir_all(&outdir).unwrap();
    let mut map: Vec<BTreeMap<String, String>> = vec![];
    let mut norms: Vec<String> = vec![];
    let mut seen_files = BTreeSet::new();
    for rel in &files {
        let rels = rel.to_string_lossy().to_string();
        seen_files.insert(rels.clone());
        let text = fs::read_to_string(srcdir.join(rel)).unwrap();
        let is_root = rels == "lib.rs";
        let out_text = match specs.get(&rels) {
            Some(fs_) => {
                let t1 = pass1(fs_, &text, &mut norms);
                pass2(fs_, &t1, is_root, &mut map, &mut norms)
            }
            None => text.clone(),
        };
        let out_rel = if is_root { PathBuf::from("root.rs") } else { rel.clone() };
        let dest = outdir.join(&out_rel);
        fs::create_dir_all(dest.parent().unwrap()).unwrap();
        fs::write(&dest, out_text).unwrap();
    }
    for f in specs.keys() {
        if !seen_files.contains(f) {
            die(&format!("LOST-ANCHOR: source file {} named by a vspec does not exist", f));
        }
    }
    fs::copy(&prelude, outdir.join("vx.rs")).unwrap_or_else(|e| die(&format!("copy prelude: {}", e)));

    // map.json
    let mut j = String::from("{\n \"normalisations\": [\n");
    for (i, n) in norms.iter().enumerate() {
        j.push_str(&format!("  {}{}\n", jesc(n), if i + 1 < norms.len() { "," } else { "" }));
    }
    j.push_str(" ],\n \"lost\": [\n");
    let lost_v: Vec<String> = LOST.with(|l| l.borrow().clone());
    for (i, n) in lost_v.iter().enumerate() {
        j.push_str(&format!("  {}{}\n", jesc(n), if i + 1 < lost_v.len() { "," } else { "" }));
    }
    j.push_str(" ],\n \"entries\": [\n");
    for (i, m) in map.iter().enumerate() {
        let fields: Vec<String> = m.iter().map(|(k, v)| format!("{}: {}", jesc(k), jesc(v))).collect();
        j.push_str(&format!("  {{{}}}{}\n", fields.join(", "), if i + 1 < map.len() { "," } else { "" }));
    }
    j.push_str(" ]\n}\n");
    fs::write(outdir.join("map.json"), j).unwrap();
    let mut sl = String::new();
    SHAPES_OUT.with(|m| {
        for (k, (l, c)) in m.borrow().iter() {
            sl.push_str(&format!("{} {} {}\n", k, l, c));
        }
    });
    fs::write(outdir.join("shapes.current"), sl).unwrap();
}

fn cmd_extract(args: &BTreeMap<String, String>) {
    let file = PathBuf::from(args.get("file").unwrap_or_else(|| die("--file")));
    let sel = args.get("item").unwrap_or_else(|| die("--item"));
    let src = Src::new(fs::read_to_string(&file).unwrap_or_else(|e| die(&format!("{:?}: {}", file, e))));
    let f = syn::parse_file(&src.text).unwrap_or_else(|e| die(&format!("parse: {}", e)));
    let idx = find_item(&f, sel, &file.to_string_lossy()).unwrap_or_else(|| die("item not found"));
    let it = &f.items[idx];
    print!("{}", &src.text[src.start(it)..src.end(it)]);
}

fn cmd_extract_closure(args: &BTreeMap<String, String>) {
    let file = PathBuf::from(args.get("file").unwrap_or_else(|| die("--file")));
    let name = args.get("fn").unwrap_or_else(|| die("--fn"));
    let src = Src::new(fs::read_to_string(&file).unwrap_or_else(|e| die(&format!("{:?}: {}", file, e))));
    let f = syn::parse_file(&src.text).unwrap_or_else(|e| die(&format!("parse: {}", e)));
    for it in &f.items {
        if let syn::Item::Fn(func) = it {
            if func.sig.ident == name.as_str() {
                let mut shape = BodyShape::default();
                shape.visit_block(&func.block);
                match shape.closures.first() {
                    Some(c) => {
                        print!("{}", &src.text[src.start(*c)..src.end(*c)]);
                        return;
                    }
                    None => die("no closure in fn"),
                }
            }
        }
    }
    die("fn not found")
}

fn cmd_items(args: &BTreeMap<String, String>) {
    let file = PathBuf::from(args.get("file").unwrap_or_else(|| die("--file")));
    let src = Src::new(fs::read_to_string(&file).unwrap());
    let f = syn::parse_file(&src.text).unwrap();
    for it in &f.items {
        if let Some(k) = item_key(it) {
            println!("{}:{}-{} {}", file.display(), src.line_of(src.start(it)), src.line_of(src.end(it)), k);
            if let syn::Item::Impl(imp) = it {
                for ii in &imp.items {
                    if let syn::ImplItem::Fn(m) = ii {
                        println!("    fn {}", m.sig.ident);
                    }
                }
            }
        }
    }
}

fn main() {
    std::panic::set_hook(Box::new(|_| {}));
    let argv: Vec<String> = std::env::args().collect();
    if argv.len() < 2 {
        die("usage: vx-assemble <assemble|extract|items> --key value ...");
    }
    let mut args = BTreeMap::new();
    let mut i = 2;
    while i + 1 < argv.len() {
        if let Some(k) = argv[i].strip_prefix("--") {
            args.insert(k.to_string(), argv[i + 1].clone());
        }
        i += 2;
    }
    match argv[1].as_str() {
        "assemble" => cmd_assemble(&args),
        "extract" => cmd_extract(&args),
        "extract-closure" => cmd_extract_closure(&args),
        "items" => cmd_items(&args),
        _ => die("unknown command"),
    }
}
