// vx-requires: fn fix_ident_conflicts(sig: &mut syn::Signature) -> ParamStatus
// vx-requires: fn lift_inner_pat_idents(sig: &mut syn::Signature) -> ParamStatus
// vx-requires: fn autogenerate_for_non_idents(sig: &mut syn::Signature)
pub(crate) mod vx_glue_stages {
    //! reaches the three private stages of `fix_fn_param_idents` (append-only glue)
    pub const AVAILABLE: bool = true;
    pub fn fix_ident_conflicts(sig: &mut syn::Signature) -> bool {
        super::fix_ident_conflicts(sig).is_ok()
    }
    pub fn lift_inner_pat_idents(sig: &mut syn::Signature) -> bool {
        super::lift_inner_pat_idents(sig).is_ok()
    }
    pub fn autogenerate_for_non_idents(sig: &mut syn::Signature) {
        super::autogenerate_for_non_idents(sig)
    }
}
