pub(crate) mod vx_glue {
    /// reaches the private module `fn_params` from the contract module (append-only glue)
    pub fn fix_fn_param_idents(sig: &mut syn::Signature) {
        super::fn_params::fix_fn_param_idents(sig)
    }
    pub(crate) use super::fn_params::vx_glue_stages as stages;
}
