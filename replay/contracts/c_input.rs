//! Input parsing / re-emission: append-only (C02), module classification (C08), diagnostics (C15).
use super::c_assemble::trait_methods;
use super::*;

pub fn contracts() -> Vec<Contract> {
    vec![
        Contract { name: "c02_append_only", function: "input.rs::{Input::parse, ModItem::parse, ImplItem::parse, parse_matched_braces_or_ending_semi, verbatim_between, ToTokens impls}, entrait_fn/mod.rs::{entrait_for_single_fn, entrait_for_mod}, entrait_impl/mod.rs::output_tokens_for_impl", props: &["C02"], run: c02 },
        Contract { name: "c08_module_methods", function: "input.rs::{ModItem::parse, peek_pub_fn, peek_fn}, entrait_fn/mod.rs::entrait_for_mod", props: &["C08", "C01", "C03"], run: c08 },
        Contract { name: "c15_diagnostics_no_panic", function: "lib.rs::invoke and everything below it", props: &["C15"], run: c15 },
    ]
}

/// items a module or impl body may contain (token text), with a flag: is it a visible fn with a body?
fn item_alphabet() -> Vec<(&'static str, Option<&'static str>)> {
    vec![
        ("pub fn a(deps: &impl Any) { let x = vec![1, 2]; x.len(); }", Some("a")),
        ("pub(crate) async fn b(deps: &impl Any, n: u8) -> u8 { n }", Some("b")),
        ("pub const fn c(deps: &impl Any) {}", Some("c")),
        ("pub unsafe extern \"C\" fn d(deps: &impl Any) {}", Some("d")),
        ("pub(super) const async unsafe fn e(deps: &impl Any) {}", Some("e")),
        ("fn private(deps: &impl Any) { fn nested() {} }", None),
        ("pub struct S { pub f: fn(i32) -> i32 }", None),
        ("pub const K: fn() = || {};", None),
        ("use std::collections::HashMap;", None),
        ("impl S { pub fn in_impl(&self) {} }", None),
        ("macro_rules! mk { () => { pub fn made() {} }; }", None),
        ("pub mod inner { pub fn in_inner() {} }", None),
        ("extern \"C\" { pub fn in_extern(); }", None),
        ("#[doc = \"x\"] #[inline] pub fn f(deps: &impl Any) -> i32 { match 1 { _ => { 2 } } }", Some("f")),
        ("pub static ST: u8 = 1;", None),
        ("pub fn g(deps: &impl Any) -> u8 where u8: Sized { 0 }", Some("g")),
        ("pub const KK: S2 = S2 { a: 1 };", None),
        ("pub type Alias = fn();", None),
        ("const fn private_const(x: u8) -> u8 { x }", None),
        ("async fn private_async(deps: &impl Any) {}", None),
        ("unsafe extern \"C\" fn private_unsafe() {}", None),
        ("const N2: usize = { 1 } + 2;", None),
        ("fn helper<I: Iterator<Item = u32>>(i: I) -> u32 { i.sum() }", None),
        ("pub struct Frame<T = u32> { pub t: T }", None),
        ("pub trait T2 { fn in_trait(&self); }", None),
    ]
}

fn fn_names(items: &[syn::Item]) -> Vec<String> {
    items.iter().filter_map(|i| if let syn::Item::Fn(f) = i { Some(f.sig.ident.to_string()) } else { None }).collect()
}

fn c02(ctx: &Ctx, r: &mut Report) {
    let max = if ctx.tier == Tier::Thorough { 4 } else { 2 };
    r.domain = "fn inputs (attributes, qualifiers, bodies with nested groups / macros / unparsable-by-syn tokens); module and impl-block bodies over an alphabet of 25 items (visible fns with every qualifier combination, private fn, struct, const with closure, use, impl, macro_rules, nested mod, extern block, static, type alias, trait, item ending in `};`)".into();
    r.bound = format!("module bodies of length 0..{} (all sequences), plus every single item; 16 fn inputs", max);
    // --- fn inputs: output starts with the input tokens, unchanged
    let fns = [
        "fn f(deps: &impl Any) {}",
        "#[doc = \"d\"] #[inline(always)] pub(crate) async unsafe fn f<'a, D: Foo>(deps: &'a D, x: &'a str) -> &'a str where D: Bar { x }",
        "pub fn f(deps: &impl Any) -> i32 { let v = [1, 2, 3]; if v.len() > 2 { return 1; }; 0 }",
        "fn f(deps: &impl Any) { some_macro! { weird tokens => @ # $ ~ ; ; } }",
        "fn f(deps: &impl Any) { let s = \"}{;\"; let c = '}'; /* } */ }",
        "const fn f(deps: &App) {}",
        "pub extern \"C\" fn f(deps: &impl Any, a: i32) {}",
        "fn f(deps: &impl Any) { async move { 1 }.await; || -> i32 { 2 }; }",
        "#[cfg(all())] fn f(deps: &impl Any) { #![allow(unused)] }",
        "fn f(deps: &impl Any, (a, b): (i32, i32), _: u8) -> (i32, i32) { (a, b) }",
        "fn f(deps: &impl Any) { r#\"raw \"# ; 1u8 ; 1.5e3 ; b'x' ; 'lt: loop { break 'lt; } }",
        "fn f(deps: &impl Any) -> impl Fn(i32) -> i32 + '_ { move |x| x }",
        "unsafe fn f(deps: &impl Any) {}",
        "pub unsafe extern \"C\" fn f(deps: &impl Any) {}",
        "pub(crate) const unsafe fn f(deps: &App) {}",
        "#[inline] unsafe fn f<D>(deps: D) -> i32 { 1 }",
    ];
    for f in fns {
        for attr in ["Tr", "Tr, mockall", "pub Tr, unimock, mock_api = TrMock"] {
            let input = format!("#[entrait({})] {}", attr, f);
            r.guarded(&input, |r| {
                let out = expand(Variant::Entrait, attr, f);
                if let Some(e) = compile_error_of(&out) {
                    r.fail("unexpected-error", &input, e);
                    return;
                }
                if let Some(k) = ts_prefix(&ts(f), &out) {
                    r.fail("fn-not-a-prefix", &input, format!("the expansion does not start with the function's own tokens (first difference at token {})", k));
                }
            });
        }
    }
    // --- module / impl bodies
    let alpha = item_alphabet();
    let mut bodies: Vec<Vec<usize>> = vec![];
    for n in 0..=max {
        bodies.extend(sequences(alpha.len(), n));
    }
    for body in bodies {
        // duplicate fn names would not be valid Rust
        let mut seen = std::collections::BTreeSet::new();
        if !body.iter().all(|i| seen.insert(*i)) {
            continue;
        }
        let text: Vec<&str> = body.iter().map(|i| alpha[*i].0).collect();
        let item = format!("#[doc = \"m\"] pub(crate) mod m {{ {} }}", text.join(" "));
        let input = format!("#[entrait(Tr)] {}", item);
        r.guarded(&input, |r| {
            let out = expand(Variant::Entrait, "Tr", &item);
            if let Some(e) = compile_error_of(&out) {
                r.fail("unexpected-error", &input, e);
                return;
            }
            // shape: attrs vis mod m { <items> <generated> }  vis use ..;
            let toks: Vec<TokenTree> = out.into_iter().collect();
            let header = ts("#[doc = \"m\"] pub(crate) mod m");
            let hl = header.clone().into_iter().count();
            let got_header: TokenStream = toks.iter().take(hl).cloned().collect();
            if !ts_eq(&header, &got_header) {
                r.fail("mod-header", &input, format!("module header became `{}`", got_header));
                return;
            }
            let inner = match toks.get(hl) {
                Some(TokenTree::Group(g)) if g.delimiter() == Delimiter::Brace => g.stream(),
                _ => {
                    r.fail("mod-shape", &input, "no brace group after the module header".into());
                    return;
                }
            };
            if let Some(k) = ts_prefix(&ts(&text.join(" ")), &inner) {
                r.fail("mod-items-changed", &input, format!("the module body does not start with the original items, unchanged and in order (first difference at token {})", k));
            }
        });
    }
    // --- inner attributes / inner doc comments at the top of the module body stay where they are
    for prefix in ["#![allow(dead_code)]", "#![doc = \"inner\"] #![allow(unused)]"] {
        for i in 0..alpha.len() {
            let body = format!("{} {}", prefix, alpha[i].0);
            let item = format!("pub mod m {{ {} }}", body);
            let input = format!("#[entrait(Tr)] {}", item);
            r.guarded(&input, |r| {
                let out = expand(Variant::Entrait, "Tr", &item);
                if let Some(e) = compile_error_of(&out) {
                    r.fail("unexpected-error", &input, e);
                    return;
                }
                let toks: Vec<TokenTree> = out.into_iter().collect();
                match toks.get(3) {
                    Some(TokenTree::Group(g)) if g.delimiter() == Delimiter::Brace => {
                        if let Some(k) = ts_prefix(&ts(&body), &g.stream()) {
                            r.fail("mod-items-changed", &input, format!("the module body does not start with its inner attributes and items, unchanged (first difference at token {})", k));
                        }
                    }
                    _ => r.fail("mod-shape", &input, "no module body".into()),
                }
            });
        }
    }
    // --- invisible (None-delimited) groups, as produced by macro_rules fragments, survive in opaque regions
    {
        let none = |inner: &str| -> TokenStream { std::iter::once(TokenTree::Group(proc_macro2::Group::new(Delimiter::None, ts(inner)))).collect() };
        let mut unknown = ts("pub const FACTOR: i32 =");
        unknown.extend(none("1 + 2"));
        unknown.extend(ts("* 2;"));
        let mut body = ts("let x =");
        body.extend(none("3 + 4"));
        body.extend(ts("* 2; x"));
        let fn_item = |name: &str| -> TokenStream {
            let mut f = ts(&format!("pub fn {}(deps: &impl Any) -> i32", name));
            f.extend(std::iter::once(TokenTree::Group(proc_macro2::Group::new(Delimiter::Brace, body.clone()))));
            f
        };
        // module
        let mut inner = unknown.clone();
        inner.extend(fn_item("f"));
        let mut module = ts("mod m");
        module.extend(std::iter::once(TokenTree::Group(proc_macro2::Group::new(Delimiter::Brace, inner.clone()))));
        let input = "#[entrait(Tr)] mod m { pub const FACTOR: i32 = <none>1 + 2</none> * 2; pub fn f(deps: &impl Any) -> i32 { let x = <none>3 + 4</none> * 2; x } }";
        r.guarded(input, |r| {
            let out = expand_ts(Variant::Entrait, ts("Tr"), module.clone());
            if let Some(e) = compile_error_of(&out) {
                r.fail("unexpected-error", input, e);
                return;
            }
            let toks: Vec<TokenTree> = out.into_iter().collect();
            match toks.get(2) {
                Some(TokenTree::Group(g)) => {
                    if let Some(k) = ts_prefix(&inner, &g.stream()) {
                        r.fail("none-group-altered", input, format!("an invisible group inside an opaque region was not passed through unchanged (first difference at token {})", k));
                    }
                }
                _ => r.fail("mod-shape", input, "no module body".into()),
            }
        });
        // single fn
        let input2 = "#[entrait(Tr)] pub fn f(deps: &impl Any) -> i32 { let x = <none>3 + 4</none> * 2; x }";
        r.guarded(input2, |r| {
            let item = fn_item("f");
            let out = expand_ts(Variant::Entrait, ts("Tr"), item.clone());
            if let Some(k) = ts_prefix(&item, &out) {
                r.fail("none-group-altered", input2, format!("fn body changed (first difference at token {})", k));
            }
        });
        // impl block
        let mut iinner = ts("const FACTOR: i32 =");
        iinner.extend(none("1 + 2"));
        iinner.extend(ts("* 2;"));
        let mut f = ts("fn f<D>(deps: &D) -> i32");
        f.extend(std::iter::once(TokenTree::Group(proc_macro2::Group::new(Delimiter::Brace, body.clone()))));
        iinner.extend(f);
        let mut imp = ts("impl TrImpl for X");
        imp.extend(std::iter::once(TokenTree::Group(proc_macro2::Group::new(Delimiter::Brace, iinner.clone()))));
        let input3 = "#[entrait] impl TrImpl for X { const FACTOR: i32 = <none>1 + 2</none> * 2; fn f<D>(deps: &D) -> i32 { let x = <none>3 + 4</none> * 2; x } }";
        r.guarded(input3, |r| {
            let out = expand_ts(Variant::Entrait, TokenStream::new(), imp.clone());
            if let Some(e) = compile_error_of(&out) {
                r.fail("unexpected-error", input3, e);
                return;
            }
            let toks: Vec<TokenTree> = out.into_iter().collect();
            match toks.get(2) {
                Some(TokenTree::Group(g)) if ts_eq(&g.stream(), &iinner) => {}
                _ => r.fail("none-group-altered", input3, "the inherent impl does not contain exactly the original items (invisible group altered)".into()),
            }
        });
    }
    // --- impl blocks: their own alphabet (what may stand in an impl block), all sequences without repetition
    let ialpha = [
        "fn a<D>(deps: &D) { let x = vec![1, 2]; x.len(); }",
        "pub(crate) async fn b<D>(deps: &D, n: u8) -> u8 { n }",
        "pub const fn c<D>(deps: &D) {}",
        "pub unsafe extern \"C\" fn d(deps: &impl Any) {}",
        "#[doc = \"x\"] #[inline] fn f(deps: &impl Any) -> i32 { match 1 { _ => { 2 } } }",
        "const K: fn() = || {};",
        "pub const N2: usize = { 1 } + 2;",
        "type Alias = fn();",
        "#[cfg(any())] pub fn decl(deps: &impl Any) -> u32;",
        "#[cfg(any())] fn decl2<D>(deps: &D) where D: Sized;",
        "mk! { fn made() {} }",
        "mk!(1);",
    ];
    let imax = if ctx.tier == Tier::Thorough { 3 } else { 2 };
    let mut ibodies: Vec<Vec<usize>> = vec![];
    for n in 1..=imax {
        ibodies.extend(sequences(ialpha.len(), n));
    }
    for body in ibodies {
        let mut seen = std::collections::BTreeSet::new();
        if !body.iter().all(|i| seen.insert(*i)) {
            continue;
        }
        for attr in ["", "ref"] {
            let text: Vec<&str> = body.iter().map(|i| ialpha[*i]).collect();
            let item = format!("impl TrImpl for X {{ {} }}", text.join(" "));
            let input = format!("#[entrait({})] {}", attr, item);
            r.guarded(&input, |r| {
                let out = expand(Variant::Entrait, attr, &item);
                if let Some(e) = compile_error_of(&out) {
                    r.fail("unexpected-error", &input, e);
                    return;
                }
                let toks: Vec<TokenTree> = out.into_iter().collect();
                let inner = match toks.get(2) {
                    Some(TokenTree::Group(g)) if g.delimiter() == Delimiter::Brace && toks[0].to_string() == "impl" && toks[1].to_string() == "X" => g.stream(),
                    _ => {
                        r.fail("impl-shape", &input, "the expansion does not start with `impl X { .. }`".into());
                        return;
                    }
                };
                if !ts_eq(&inner, &ts(&text.join(" "))) {
                    r.fail("impl-items-changed", &input, format!("the inherent impl does not contain exactly the original items: `{}`", inner));
                }
            });
        }
    }
    // --- impl blocks: items re-emitted inside an inherent impl
    for body in sequences(alpha.len(), 1).into_iter().chain(std::iter::once(vec![0, 5, 13])) {
        let text: Vec<&str> = body
            .iter()
            .map(|i| alpha[*i].0)
            .filter(|t| !(t.contains("mod inner") || t.contains("struct S") || t.contains("use std") || t.contains("impl S") || t.contains("extern \"C\" {") || t.contains("static") || t.contains("trait T2") || t.contains("macro_rules") || t.contains("private_") || t.contains("fn helper") || t.contains("struct Frame")))
            .collect();
        let item = format!("impl TrImpl for X {{ {} }}", text.join(" ").replace("&impl Any", "&D").replace("fn a(", "fn a<D>(").replace("fn b(", "fn b<D>(").replace("fn c(", "fn c<D>(").replace("fn d(", "fn d<D>(").replace("fn e(", "fn e<D>(").replace("fn f(", "fn f<D>(").replace("fn g(", "fn g<D>(").replace("fn private(", "fn private<D>("));
        let input = format!("#[entrait] {}", item);
        r.guarded(&input, |r| {
            let out = expand(Variant::Entrait, "", &item);
            if let Some(e) = compile_error_of(&out) {
                r.fail("unexpected-error", &input, e);
                return;
            }
            let toks: Vec<TokenTree> = out.into_iter().collect();
            // impl X { <items> }
            let head: Vec<String> = toks.iter().take(2).map(|t| t.to_string()).collect();
            if head != vec!["impl".to_string(), "X".to_string()] {
                r.fail("impl-header", &input, format!("expansion starts with `{}`", head.join(" ")));
                return;
            }
            let inner = match toks.get(2) {
                Some(TokenTree::Group(g)) if g.delimiter() == Delimiter::Brace => g.stream(),
                _ => {
                    r.fail("impl-shape", &input, "no brace group after `impl X`".into());
                    return;
                }
            };
            let orig_inner = match ts(&item).into_iter().last() {
                Some(TokenTree::Group(g)) => g.stream(),
                _ => TokenStream::new(),
            };
            if !ts_eq(&inner, &orig_inner) {
                r.fail("impl-items-changed", &input, "the inherent impl does not contain exactly the original items".into());
            }
        });
    }
}

fn c08(ctx: &Ctx, r: &mut Report) {
    let max = if ctx.tier == Tier::Thorough { 4 } else { 3 };
    r.domain = "module bodies over the 25-item alphabet of c02 (visible fns with every qualifier combination, private fns, body-less and nested fns, items containing `fn` tokens)".into();
    r.bound = format!("all sequences without repetition of length 0..{}", max);
    let alpha = item_alphabet();
    let mut bodies: Vec<Vec<usize>> = vec![];
    for n in 0..=max {
        bodies.extend(sequences(alpha.len(), n));
    }
    for body in bodies {
        let mut seen = std::collections::BTreeSet::new();
        if !body.iter().all(|i| seen.insert(*i)) {
            continue;
        }
        if max >= 3 && body.len() == max && body.iter().all(|i| alpha[*i].1.is_none()) && body[0] % 3 != 0 {
            continue; // thin out bodies without any visible fn
        }
        let text: Vec<&str> = body.iter().map(|i| alpha[*i].0).collect();
        let want: Vec<&str> = body.iter().filter_map(|i| alpha[*i].1).collect();
        let item = format!("mod m {{ {} }}", text.join(" "));
        let input = format!("#[entrait(pub Tr)] {}", item);
        r.guarded(&input, |r| {
            let out = expand(Variant::Entrait, "pub Tr", &item);
            if let Some(e) = compile_error_of(&out) {
                r.fail("unexpected-error", &input, e);
                return;
            }
            let file = match parse_file(&out) {
                Ok(f) => f,
                Err(e) => {
                    r.fail("unparsable", &input, e);
                    return;
                }
            };
            let t = mod_items(&file.items, "m").and_then(|it| find_trait(it, "Tr"));
            match t {
                Some(t) => {
                    let got: Vec<String> = trait_methods(t).iter().map(|m| m.sig.ident.to_string()).collect();
                    if got != want {
                        r.fail("method-list", &input, format!("trait methods {:?}, the module's visible functions are {:?}", got, want));
                    }
                }
                None => r.fail("no-trait", &input, "trait not generated inside the module".into()),
            }
        });
    }
}

fn c15(_ctx: &Ctx, r: &mut Report) {
    r.domain = "documented misuses with their messages; unsupported items (struct, enum, const, use, extern block, macro, empty); malformed option lists; parameter patterns in fn and trait-method signatures {ident, mut, ref, _, tuple, struct, slice, reference, nested, or-less}; every Ok output must re-parse as items".into();
    r.bound = "fixed catalogue (listed in the contract source), exhaustive".into();
    let misuse: [(&str, &str, &str); 15] = [
        ("Tr", "fn f() {}", "Function must have a dependency 'receiver' as its first parameter"),
        ("Tr", "fn f(&self) {}", "Function cannot have a self receiver"),
        ("Tr", "fn f(self, a: i32) {}", "Function cannot have a self receiver"),
        ("Tr", "mod m { pub fn f(deps: &App) {} }", "Using concrete dependencies in a module is an anti-pattern"),
        ("", "impl TrImpl for X { fn f(deps: &App) {} }", "Cannot (yet) use concrete dependency in an impl block"),
        ("Tr", "mod m { pub fn g(deps: &impl Any) {} pub fn h<D>(deps: &D) {} pub fn f(deps: &App) {} }", "Using concrete dependencies in a module is an anti-pattern"),
        ("", "impl TrImpl for X { fn g<D>(deps: &D) {} fn f(deps: &App) {} }", "Cannot (yet) use concrete dependency in an impl block"),
        ("ref", "impl TrImpl for X { fn g<D>(deps: &D) {} fn h(deps: &impl Any) {} fn f(deps: &path::App) {} }", "Cannot (yet) use concrete dependency in an impl block"),
        ("Tr, bogus", "fn f(deps: &impl Any) {}", "Unkonwn entrait option \\\"bogus\\\""),
        ("Tr, delegate_by = ref", "fn f(deps: &impl Any) {}", "Unsupported option"),
        ("delegate_by = DelegateTr", "trait Tr { fn f(&self); }", "Cannot use a custom delegating trait without a custom trait to delegate to"),
        ("TrImpl", "trait Tr { fn f(&self); }", "Missing delegate_by"),
        ("TrImpl, delegate_by = Self", "trait Tr { fn f(&self); }", "Missing delegate_by"),
        ("TrImpl, delegate_by", "trait Tr { fn f(&self); }", "Missing delegate_by"),
        ("pub TrImpl, mockall", "trait Tr { fn f(&self); }", "Missing delegate_by"),
    ];
    for (attr, item, needle) in misuse {
        let input = format!("#[entrait({})] {}", attr, item);
        r.guarded(&input, |r| {
            let out = expand(Variant::Entrait, attr, item);
            match compile_error_of(&out) {
                Some(e) if e.contains(needle) => {}
                Some(e) => r.fail("wrong-diagnostic", &input, format!("expected `{}`, got {}", needle, e)),
                None => r.fail("no-diagnostic", &input, format!("expected the diagnostic `{}` but the expansion succeeded", needle)),
            }
        });
    }
    // valid inputs that exercise the shared generics analyzer across several functions: no panic, no diagnostic
    for deps in ["&impl Any", "&App0", "&D"] {
        for w1 in ["where T: Clone", "where T: Clone,", "where T: Clone, T: Send", ""] {
            for w2 in ["where U: ToString", "where U: ToString,", ""] {
                for mode in ["mod", "impl", "impl-ref"] {
                    let g = |t: &str| if deps == "&D" { format!("<D, {}>", t) } else { format!("<{}>", t) };
                    let fns = format!("pub fn first{}(deps: {}, t: T) {} {{}} pub fn second{}(deps: {}, u: U) {} {{}} pub fn third{}(deps: {}, t: T) where T: Copy {{}}", g("T"), deps, w1, g("U"), deps, w2, g("T"), deps);
                    let (attr, item) = match mode {
                        "mod" => ("Tr", format!("mod m {{ {} }}", fns)),
                        "impl" => ("", format!("impl TrImpl for X {{ {} }}", fns)),
                        _ => ("ref", format!("impl TrImpl for X {{ {} }}", fns)),
                    };
                    if deps == "&App0" {
                        continue; // concrete deps are rejected in modules and impl blocks (covered above)
                    }
                    let input = format!("#[entrait({})] {}", attr, item);
                    r.guarded(&input, |r| {
                        let out = expand(Variant::Entrait, attr, &item);
                        match compile_error_of(&out) {
                            Some(e) => r.fail("valid-input-rejected", &input, format!("valid input was rejected: {}", e)),
                            None => {
                                if let Err(e) = parse_file(&out) {
                                    r.fail("unparsable-output", &input, e);
                                }
                            }
                        }
                    });
                }
            }
        }
    }
    for w in ["where T: Clone", "where T: Clone,", "where T: Clone, U: Send"] {
        for opts in ["Tr", "Tr, no_deps"] {
            let item = format!("fn f<T, U>({}t: T, u: U) {} {{}}", if opts.contains("no_deps") { "" } else { "deps: &App0, " }, w);
            let input = format!("#[entrait({})] {}", opts, item);
            r.guarded(&input, |r| {
                let out = expand(Variant::Entrait, opts, &item);
                if let Some(e) = compile_error_of(&out) {
                    r.fail("valid-input-rejected", &input, format!("valid input was rejected: {}", e));
                }
            });
        }
    }
    // anything goes, as long as it is a diagnostic or parsable output - never a panic
    let odd_items = [
        "struct S;", "enum E { A }", "const K: u8 = 1;", "use a::b;", "extern \"C\" { fn f(); }", "macro_rules! m { () => {} }", "", "static S: u8 = 1;", "type T = u8;", "union U { a: u8 }",
        "fn f();", "mod m;", "mod m { pub fn f(deps: &impl Any) }", "trait Tr { const K: u8; }", "trait Tr { fn f(&self) }", "impl X { fn f(&self) {} }", "impl<T> TrImpl for X<T> { }",
        "auto trait Tr {}", "unsafe mod m {}", "auto mod m {}", "auto impl TrImpl for X {}", "unsafe impl TrImpl for X { fn f<D>(deps: &D) {} }", "pub(crate) unsafe trait Tr { fn f(&self); }",
    ];
    for item in odd_items {
        for attr in ["Tr", "", "Tr, no_deps", "pub", "pub Tr mockall", "Tr,", "Tr,,", "= 3", "Tr, mock_api", "Tr, mock_api =", "Tr, unimock = maybe", "?", "?Send", "ref", "dyn", "ref dyn", "TrImpl, delegate_by", "TrImpl, delegate_by ="] {
            let input = format!("#[entrait({})] {}", attr, item);
            r.guarded(&input, |r| {
                let out = expand(Variant::Entrait, attr, item);
                if compile_error_of(&out).is_none() {
                    if let Err(e) = parse_file(&out) {
                        r.fail("unparsable-output", &input, e);
                    }
                }
            });
        }
    }
    // parameter patterns
    let pats = ["f", "mut f", "a", "mut a", "ref a", "_", "(a, b)", "S { a, b }", "S { a, .. }", "[a, b]", "&a", "&mut a", "((a, b), c)", "W(a)", "W(_)", "a @ _", "r#fn", "box_", "(a)", "()", "[]", "S {}"];
    for p1 in pats {
        for p2 in ["", "x", "_", "(c, d)"] {
            let params = if p2.is_empty() { format!("{}: T0", p1) } else { format!("{}: T0, {}: T1", p1, p2) };
            let cases = [
                ("Tr".to_string(), format!("fn f(deps: &impl Any, {}) {{}}", params)),
                ("Tr, no_deps".to_string(), format!("fn f({}) {{}}", params)),
                ("Tr".to_string(), format!("mod m {{ pub fn f(deps: &impl Any, {}) {{}} }}", params)),
                ("".to_string(), format!("impl TrImpl for X {{ fn f<D>(deps: &D, {}) {{}} }}", params)),
                ("ref".to_string(), format!("impl TrImpl for X {{ fn f<D>(deps: &D, {}) {{}} }}", params)),
            ];
            for (attr, item) in cases {
                let input = format!("#[entrait({})] {}", attr, item);
                r.guarded(&input, |r| {
                    let out = expand(Variant::Entrait, &attr, &item);
                    if compile_error_of(&out).is_none() {
                        if let Err(e) = parse_file(&out) {
                            r.fail("unparsable-output", &input, e);
                        }
                    }
                });
            }
            // patterns in trait method declarations (only identifiers and `_` are legal Rust there)
            if matches!(p1, "a" | "_" | "r#fn" | "box_") && matches!(p2, "" | "x" | "_") {
                for attr in ["", "delegate_by = ref", "TrImpl, delegate_by = DelegateTr", "TrImpl, delegate_by = ref", "mockall"] {
                    let item = format!("trait Tr {{ fn f(&self, {}); }}", params);
                    let input = format!("#[entrait({})] {}", attr, item);
                    let class = if p1 == "_" || p2 == "_" { "panic-wildcard-in-trait-method" } else { "panic" };
                    r.guarded_with(&input, class, |r| {
                        let out = expand(Variant::Entrait, attr, &item);
                        if compile_error_of(&out).is_none() {
                            if let Err(e) = parse_file(&out) {
                                r.fail("unparsable-output", &input, e);
                            }
                        }
                    });
                }
            }
        }
    }
}
