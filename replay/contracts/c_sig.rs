//! C12 (async rewrite, Send, async_trait) and C03 (signature conversion keeps the call type).
use super::c_assemble::{impl_methods, trait_methods};
use super::*;

pub fn contracts() -> Vec<Contract> {
    vec![
        Contract { name: "c12_async_signature", function: "trait_codegen.rs::make_trait_fn_sig, sub_attributes.rs::{analyze_sub_attributes, contains_async_trait}, opt.rs::EntraitOpt::parse (?Send), entrait_trait/mod.rs::gen_impl_delegation_trait_defs", props: &["C12", "C19", "C05"], run: c12 },
        Contract { name: "c03_signature_conversion", function: "signature/converter.rs::SignatureConverter::convert_fn_to_trait_fn, analyze_generics.rs::{deps_with_generics, find_deps_generic_bounds}", props: &["C03", "C01"], run: c03 },
    ]
}

/// every trait in the expansion (top level and inside modules)
fn all_traits(items: &[syn::Item]) -> Vec<&syn::ItemTrait> {
    let mut v = vec![];
    for it in items {
        match it {
            syn::Item::Trait(t) => v.push(t),
            syn::Item::Mod(m) => {
                if let Some((_, inner)) = &m.content {
                    v.extend(all_traits(inner));
                }
            }
            _ => {}
        }
    }
    v
}

fn all_impls(items: &[syn::Item]) -> Vec<&syn::ItemImpl> {
    let mut v = vec![];
    for it in items {
        match it {
            syn::Item::Impl(t) => v.push(t),
            syn::Item::Mod(m) => {
                if let Some((_, inner)) = &m.content {
                    v.extend(all_impls(inner));
                }
            }
            _ => {}
        }
    }
    v
}

fn c12(_ctx: &Ctx, r: &mut Report) {
    r.domain = "async fn (generic and concrete deps) / mod / trait (plain, static and dynamic delegation target) inputs x return types {none, i32, &str, Result<T, E>, &'a T} x {default, ?Send} x async_trait {absent, #[async_trait], #[async_trait::async_trait], #[async_trait(?Send)]}".into();
    r.bound = "exhaustive".into();
    let rets: [(&str, &str); 5] = [("", "()"), ("-> i32", "i32"), ("-> &str", "& str"), ("-> Result<T, E>", "Result < T , E >"), ("-> &'a T", "& 'a T")];
    let ats: [&str; 4] = ["", "#[async_trait]", "#[async_trait::async_trait]", "#[async_trait(?Send)]"];
    #[derive(Clone, Copy, Debug, PartialEq)]
    enum Kind {
        Fn,
        FnConcrete,
        Mod,
        Trait,
        TraitStatic,
        TraitDyn,
    }
    for kind in [Kind::Fn, Kind::FnConcrete, Kind::Mod, Kind::Trait, Kind::TraitStatic, Kind::TraitDyn] {
        for (ret, want_out) in rets {
            for maybe_send in [false, true] {
                for at in ats {
                    let lt = if ret.contains("'a") { "<'a>" } else { "" };
                    let (attr, item, checked): (String, String, Vec<&str>) = match kind {
                        Kind::Fn => (format!("Tr{}", if maybe_send { ", ?Send" } else { "" }), format!("{} async fn f{}(deps: &impl Any, a: i32) {} {{ todo!() }}", at, lt, ret), vec!["Tr"]),
                        Kind::FnConcrete => (format!("Tr{}", if maybe_send { ", ?Send" } else { "" }), format!("{} async fn f{}(deps: &App0, a: i32) {} {{ todo!() }}", at, lt, ret), vec!["Tr"]),
                        Kind::Mod => (format!("Tr{}", if maybe_send { ", ?Send" } else { "" }), format!("{} mod m {{ pub async fn f{}(deps: &impl Any, a: i32) {} {{ todo!() }} pub fn s(deps: &impl Any) {{}} }}", at, lt, ret), vec!["Tr"]),
                        Kind::Trait => (if maybe_send { "?Send".into() } else { "".into() }, format!("{} trait Tr {{ async fn f{}(&self, a: i32) {}; fn s(&self); }}", at, lt, ret), vec!["Tr"]),
                        Kind::TraitStatic => (format!("TrImpl, delegate_by = DelegateTr{}", if maybe_send { ", ?Send" } else { "" }), format!("{} trait Tr {{ async fn f{}(&self, a: i32) {}; fn s(&self); }}", at, lt, ret), vec!["Tr", "TrImpl"]),
                        Kind::TraitDyn => (format!("TrImpl, delegate_by = ref{}", if maybe_send { ", ?Send" } else { "" }), format!("{} trait Tr {{ async fn f{}(&self, a: i32) {}; fn s(&self); }}", at, lt, ret), vec!["Tr", "TrImpl"]),
                    };
                    let input = format!("#[entrait({})] {}", attr, item);
                    r.guarded(&input, |r| {
                        let out = expand(Variant::Entrait, &attr, &item);
                        if let Some(e) = compile_error_of(&out) {
                            r.fail("unexpected-error", &input, e);
                            return;
                        }
                        let file = match parse_file(&out) {
                            Ok(f) => f,
                            Err(e) => {
                                r.fail("unparsable", &input, e);
                                return;
                            }
                        };
                        let traits = all_traits(&file.items);
                        for name in &checked {
                            let t = match traits.iter().find(|t| t.ident == name) {
                                Some(t) => *t,
                                None => {
                                    r.fail("no-trait", &input, format!("trait {} not found", name));
                                    continue;
                                }
                            };
                            let has_at = t.attrs.iter().filter(|a| a.path().segments.last().map(|s| s.ident == "async_trait").unwrap_or(false)).count();
                            let m = match trait_methods(t).into_iter().find(|m| m.sig.ident == "f") {
                                Some(m) => m,
                                None => {
                                    r.fail("no-method", &input, format!("{}::f not found", name));
                                    continue;
                                }
                            };
                            if !at.is_empty() {
                                // async_trait below entrait: `async fn` kept, attribute re-applied
                                if m.sig.asyncness.is_none() {
                                    r.fail("async-trait-not-honoured", &input, format!("{}::f was desugared although an async_trait attribute is present", name));
                                }
                                if has_at == 0 {
                                    r.fail("async-trait-not-reapplied", &input, format!("async_trait attribute is missing on trait {}", name));
                                }
                                let out_ty = match &m.sig.output {
                                    syn::ReturnType::Default => "()".to_string(),
                                    syn::ReturnType::Type(_, t) => tt_string(t.as_ref()),
                                };
                                if out_ty != want_out {
                                    r.fail("return-type", &input, format!("{}::f returns `{}`, declared `{}`", name, out_ty, want_out));
                                }
                            } else {
                                if m.sig.asyncness.is_some() {
                                    r.fail("still-async", &input, format!("{}::f is still `async fn`", name));
                                    continue;
                                }
                                let got = match &m.sig.output {
                                    syn::ReturnType::Type(_, t) => tt_string(t.as_ref()),
                                    _ => String::new(),
                                };
                                let want = format!("impl :: core :: future :: Future < Output = {} >{}", want_out, if maybe_send { "" } else { " + :: core :: marker :: Send" });
                                if got != want {
                                    r.fail(if got.contains("Send") != want.contains("Send") { "send-bound" } else { "future-output" }, &input, format!("{}::f returns `{}`, expected `{}`", name, got, want));
                                }
                            }
                        }
                        // with async_trait the generated implementations carry it as well
                        if !at.is_empty() {
                            for im in all_impls(&file.items) {
                                if im.trait_.is_none() {
                                    continue;
                                }
                                let n = im.attrs.iter().filter(|a| a.path().segments.last().map(|s| s.ident == "async_trait").unwrap_or(false)).count();
                                if n == 0 {
                                    r.fail("async-trait-not-on-impl", &input, format!("impl of {} lacks the async_trait attribute", im.trait_.as_ref().map(|t| tt_string(&t.1)).unwrap_or_default()));
                                }
                            }
                        }
                        // delegating bodies await
                        for im in all_impls(&file.items) {
                            if im.trait_.is_none() {
                                continue;
                            }
                            for m in impl_methods(im) {
                                let body = tt_string(&m.block);
                                let awaited = body.contains(". await");
                                if (m.sig.ident == "f") != awaited {
                                    r.fail("await", &input, format!("method {} body `{}`", m.sig.ident, body));
                                }
                            }
                        }
                    });
                }
            }
        }
    }
}

fn c03(_ctx: &Ctx, r: &mut Report) {
    r.domain = "fn inputs: generic parameter lists up to length 3 over {deps D (bounded or not), T: Clone, U, 'a, 'b, const N: usize} x where clauses {none, T: Copy, D: A, U: 'a} x parameter / return types mentioning them x deps {&D, D, &'a D, &impl A} x {sync, async}".into();
    r.bound = "exhaustive over the listed alphabets".into();
    let generic_sets: [(&str, &[&str], &[&str]); 13] = [
        ("<const N: usize, D>", &["const N : usize"], &[]),
        ("<'a, const N: usize, D: A>", &["const N : usize"], &["'a"]),
        ("<const N: usize, T, D>", &["const N : usize", "T"], &[]),
        ("<T, const N: usize, D, U>", &["T", "const N : usize", "U"], &[]),
        ("<D>", &[], &[]),
        ("<D, T: Clone>", &["T : Clone"], &[]),
        ("<T: Clone, D>", &["T : Clone"], &[]),
        ("<'a, D>", &[], &["'a"]),
        ("<'a, 'b, D, T>", &["T"], &["'a", "'b"]),
        ("<D, T, U>", &["T", "U"], &[]),
        ("<D: A, T>", &["T"], &[]),
        ("<'a, D, T: 'a>", &["T : 'a"], &["'a"]),
        ("<D, const N: usize>", &["const N : usize"], &[]),
    ];
    let wheres: [(&str, &[&str]); 4] = [("", &[]), ("where T: Copy", &["T : Copy"]), ("where D: A", &[]), ("where D: A, T: Copy + Send", &["T : Copy + Send"])];
    for (g, lifted, lifetimes) in generic_sets {
        for (w, lifted_preds) in wheres {
            if w.contains('T') && !g.contains('T') {
                continue;
            }
            for deps in ["&D", "D"] {
                for is_async in [false, true] {
                    let a_ty = if g.contains("'a") { "&'a str" } else { "String" };
                    let b_ty = if g.contains('T') { "T" } else { "u8" };
                    let c_ty = if g.contains("const N") { "[u8; N]" } else { "i64" };
                    let ret = if g.contains("'a") { "&'a str" } else if g.contains('T') { "Option<T>" } else { "i32" };
                    let item = format!("{} fn f{}(deps: {}, a: {}, b: {}, c: {}) -> {} {} {{ todo!() }}", if is_async { "async" } else { "" }, g, deps, a_ty, b_ty, c_ty, ret, w);
                    let input = format!("#[entrait(Tr)] {}", item);
                    r.guarded(&input, |r| {
                        let out = expand(Variant::Entrait, "Tr", &item);
                        if let Some(e) = compile_error_of(&out) {
                            r.fail("unexpected-error", &input, e);
                            return;
                        }
                        let file = match parse_file(&out) {
                            Ok(f) => f,
                            Err(e) => {
                                r.fail("unparsable", &input, e);
                                return;
                            }
                        };
                        let t = match find_trait(&file.items, "Tr") {
                            Some(t) => t,
                            None => {
                                r.fail("no-trait", &input, "trait not found".into());
                                return;
                            }
                        };
                        // trait generics: exactly the non-deps type / const parameters, in order
                        let tg: Vec<String> = t.generics.params.iter().map(|p| tt_string(p)).collect();
                        let want_tg: Vec<String> = lifted.iter().map(|s| s.to_string()).collect();
                        if tg != want_tg {
                            r.fail("trait-generics", &input, format!("trait generics [{}], expected [{}]", tg.join(", "), want_tg.join(", ")));
                        }
                        let tw: Vec<String> = t.generics.where_clause.as_ref().map(|w| w.predicates.iter().map(|p| tt_string(p)).collect()).unwrap_or_default();
                        let want_tw: Vec<String> = lifted_preds.iter().map(|s| s.to_string()).collect();
                        let im = find_impls(&file.items, "Tr");
                        let mut sigs: Vec<&syn::Signature> = trait_methods(t).iter().map(|m| &m.sig).collect();
                        if let Some(i) = im.first() {
                            sigs.extend(impl_methods(i).iter().map(|m| &m.sig));
                        }
                        for (k, sig) in sigs.iter().enumerate() {
                            let what = if k == 0 { "trait method" } else { "impl method" };
                            // every non-deps where-predicate survives, on the trait or on the method; no deps predicate remains
                            let mw: Vec<String> = sig.generics.where_clause.as_ref().map(|w| w.predicates.iter().map(|p| tt_string(p)).collect()).unwrap_or_default();
                            for p in &want_tw {
                                if !tw.contains(p) && !mw.contains(p) {
                                    r.fail("predicate-dropped", &input, format!("where-predicate `{}` is on neither the trait nor the {}", p, what));
                                }
                            }
                            for p in tw.iter().chain(mw.iter()) {
                                if p.starts_with("D :") {
                                    r.fail("deps-predicate-left", &input, format!("predicate `{}` on the removed deps parameter survives", p));
                                } else if !want_tw.contains(p) {
                                    r.fail("predicate-added", &input, format!("where-predicate `{}` was not written by the user", p));
                                }
                            }
                            // a generic parameter must not be declared both on the trait/impl and on the method
                            for p in &sig.generics.params {
                                let name = match p {
                                    syn::GenericParam::Type(t) => t.ident.to_string(),
                                    syn::GenericParam::Const(c) => c.ident.to_string(),
                                    syn::GenericParam::Lifetime(l) => l.lifetime.to_string(),
                                };
                                if t.generics.params.iter().any(|q| match q {
                                    syn::GenericParam::Type(t) => t.ident == name,
                                    syn::GenericParam::Const(c) => c.ident == name,
                                    _ => false,
                                }) {
                                    r.fail("generic-declared-twice", &input, format!("`{}` is declared on the trait and again on the {}", name, what));
                                }
                            }
                            let lts: Vec<String> = sig.generics.params.iter().filter_map(|p| if let syn::GenericParam::Lifetime(l) = p { Some(l.lifetime.to_string()) } else { None }).collect();
                            let want_lts: Vec<String> = lifetimes.iter().map(|s| s.to_string()).collect();
                            if lts != want_lts {
                                r.fail("method-lifetimes", &input, format!("{} lifetimes {:?}, expected {:?}", what, lts, want_lts));
                            }
                            let tys: Vec<String> = sig.inputs.iter().filter_map(|a| if let syn::FnArg::Typed(p) = a { Some(tt_string(p.ty.as_ref())) } else { None }).collect();
                            let want_tys: Vec<String> = [a_ty, b_ty, c_ty].iter().map(|s| tt_string(&syn::parse_str::<syn::Type>(s).unwrap())).collect();
                            if tys != want_tys {
                                r.fail("parameter-types", &input, format!("{} parameter types {:?}, the function's {:?}", what, tys, want_tys));
                            }
                            match sig.inputs.first() {
                                Some(syn::FnArg::Receiver(rc)) => {
                                    if rc.reference.is_some() != deps.starts_with('&') || rc.mutability.is_some() {
                                        r.fail("receiver", &input, format!("{} receiver `{}` for deps `{}`", what, tt_string(rc), deps));
                                    }
                                }
                                _ => r.fail("receiver", &input, format!("{} has no receiver", what)),
                            }
                            // return type (k == 0 async is rewritten to impl Future, checked by C12)
                            let rt = match &sig.output {
                                syn::ReturnType::Type(_, t) => tt_string(t.as_ref()),
                                _ => "()".into(),
                            };
                            let want_rt = tt_string(&syn::parse_str::<syn::Type>(ret).unwrap());
                            let ok = if is_async && k == 0 { rt.contains(&format!("Output = {}", want_rt)) } else { rt == want_rt };
                            if !ok {
                                r.fail("return-type", &input, format!("{} returns `{}`, the function `{}`", what, rt, want_rt));
                            }
                        }
                    });
                }
            }
        }
    }
}
