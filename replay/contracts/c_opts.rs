//! C10 (mock attributes over the option lattice) and C17 (option table, macro variants).
use super::*;

pub fn contracts() -> Vec<Contract> {
    vec![
        Contract { name: "c10_mock_attr_lattice", function: "lib.rs::invoke -> trait_codegen.rs::TraitCodegen::gen_trait_def (+ input_attr parsers, set_fallbacks)", props: &["C10", "C17"], run: c10_lattice },
        Contract { name: "c17_bare_is_true_and_false_is_absent", function: "opt.rs::EntraitOpt::parse / parse_eq_bool, */input_attr.rs parsers", props: &["C17"], run: c17_bare },
        Contract { name: "c17_option_order_irrelevant", function: "entrait_fn/input_attr.rs::EntraitFnAttr::parse, entrait_trait/input_attr.rs::EntraitTraitAttr::parse", props: &["C17"], run: c17_order },
        Contract { name: "c17_accepted_option_sets", function: "*/input_attr.rs parsers, opt.rs::EntraitOpt::parse", props: &["C17", "C15"], run: c17_accepted },
        Contract { name: "c17_variants_are_shorthands", function: "lib.rs::{entrait_export, entrait_unimock, entrait_export_unimock, set_fallbacks}", props: &["C17", "C10"], run: c17_variants },
    ]
}

#[derive(Clone, Copy, PartialEq, Eq, Debug)]
pub enum Mode {
    Fn,
    Mod,
    Trait,
}

pub fn item_for(mode: Mode) -> &'static str {
    match mode {
        Mode::Fn => "fn f(deps: &impl Any, a: i32) -> i32 { a }",
        Mode::Mod => "mod m { pub fn f(deps: &impl Any, a: i32) -> i32 { a } pub fn g(deps: &impl Any) {} }",
        Mode::Trait => "trait Tr { fn f(&self, a: i32) -> i32; }",
    }
}

/// further inputs per mode for the option-equivalence contracts: rejected inputs included (the diagnostics must agree too)
pub fn items_for(mode: Mode) -> Vec<&'static str> {
    let mut v = vec![item_for(mode)];
    match mode {
        Mode::Fn => v.extend([
            "fn f() -> i32 { 1 }",
            "fn f(a: i32) -> i32 { a }",
            "pub async fn f<D: A>(deps: D, W(w): W) {}",
            "fn f(deps: &App, a: i32) {}",
            "unsafe fn f<'a, T>(deps: &impl Any, t: &'a T) -> &'a T where T: Send { t }",
        ]),
        Mode::Mod => v.extend([
            "mod m { pub fn f() -> i32 { 1 } }",
            "mod m { pub fn f(a: i32) -> i32 { a } pub async fn g<D: A>(deps: &D) {} fn h() {} }",
            "mod m { }",
        ]),
        Mode::Trait => v.extend(["trait Tr { async fn f(&self, a: i32) -> i32; fn g(&self); }", "pub trait Tr<T>: Sized where T: Send { fn f(&self, t: T) -> T; }"]),
    }
    v
}

pub fn attr_for(mode: Mode, opts: &[String]) -> String {
    match mode {
        Mode::Fn | Mode::Mod => {
            let mut s = String::from("Tr");
            for o in opts {
                s.push_str(", ");
                s.push_str(o);
            }
            s
        }
        Mode::Trait => opts.join(", "),
    }
}

/// the generated / entraited trait `Tr` inside an expansion
pub fn the_trait(mode: Mode, f: &syn::File) -> Option<syn::ItemTrait> {
    match mode {
        Mode::Fn | Mode::Trait => find_trait(&f.items, "Tr").cloned(),
        Mode::Mod => mod_items(&f.items, "m").and_then(|items| find_trait(items, "Tr").cloned()),
    }
}

#[derive(Debug, PartialEq, Eq, Clone, Copy)]
pub enum MockKind {
    Unimock,
    Mockall,
}

/// classify an attribute as a mock derivation: (kind, gated by cfg_attr(test, ..))
pub fn classify_mock_attr(a: &syn::Attribute) -> Option<(MockKind, bool)> {
    fn kind_of_path(p: &syn::Path) -> Option<MockKind> {
        let last = p.segments.last()?.ident.to_string();
        match last.as_str() {
            "unimock" => Some(MockKind::Unimock),
            "automock" => Some(MockKind::Mockall),
            _ => None,
        }
    }
    if a.path().is_ident("cfg_attr") {
        // cfg_attr(test, <path>(..))
        let toks: Vec<TokenTree> = match &a.meta {
            syn::Meta::List(l) => l.tokens.clone().into_iter().collect(),
            _ => return None,
        };
        let is_test = matches!(toks.get(0), Some(TokenTree::Ident(i)) if i == "test") && matches!(toks.get(1), Some(TokenTree::Punct(p)) if p.as_char() == ',');
        let rest: TokenStream = toks.into_iter().skip(2).collect();
        let meta: syn::Meta = syn::parse2(rest).ok()?;
        let k = kind_of_path(meta.path())?;
        if !is_test {
            // a cfg_attr with another predicate is not "test-gated" in the sense of the property
            return Some((k, false));
        }
        Some((k, true))
    } else {
        kind_of_path(a.path()).map(|k| (k, false))
    }
}

fn tri() -> [Option<bool>; 3] {
    [None, Some(true), Some(false)]
}

fn c10_lattice(_ctx: &Ctx, r: &mut Report) {
    r.domain = "{entrait, entrait_export, entrait_unimock (= feature on), entrait_export_unimock} x unimock {absent,bare,=true,=false} x mock_api {absent,present} x mockall {absent,bare,=true,=false} x export {absent,bare,=true,=false; absent only for traits} x {fn, mod, trait}".into();
    r.bound = "full lattice, exhaustive".into();
    let spell = |name: &str, v: Option<bool>, bare: bool| -> Option<String> {
        match v {
            None => None,
            Some(true) if bare => Some(name.to_string()),
            Some(b) => Some(format!("{} = {}", name, b)),
        }
    };
    for mode in [Mode::Fn, Mode::Mod, Mode::Trait] {
        for v in Variant::ALL {
            for (uni, uni_bare) in [(None, false), (Some(true), true), (Some(true), false), (Some(false), false)] {
                for api in [false, true] {
                    for (mk, mk_bare) in [(None, false), (Some(true), true), (Some(true), false), (Some(false), false)] {
                        for (ex, ex_bare) in [(None, false), (Some(true), true), (Some(true), false), (Some(false), false)] {
                            if mode == Mode::Trait && ex.is_some() {
                                continue;
                            }
                            let mut opts = vec![];
                            if let Some(s) = spell("unimock", uni, uni_bare) {
                                opts.push(s);
                            }
                            if api {
                                opts.push("mock_api = TrMock".to_string());
                            }
                            if let Some(s) = spell("mockall", mk, mk_bare) {
                                opts.push(s);
                            }
                            if let Some(s) = spell("export", ex, ex_bare) {
                                opts.push(s);
                            }
                            let attr = attr_for(mode, &opts);
                            let input = format!("#[{}({})] {}", v.name(), attr, item_for(mode));
                            r.guarded(&input, |r| {
                                let out = expand(v, &attr, item_for(mode));
                                if let Some(e) = compile_error_of(&out) {
                                    r.fail("unexpected-error", &input, format!("expansion failed: {}", e));
                                    return;
                                }
                                let file = match parse_file(&out) {
                                    Ok(f) => f,
                                    Err(e) => {
                                        r.fail("unparsable", &input, e);
                                        return;
                                    }
                                };
                                let tr = match the_trait(mode, &file) {
                                    Some(t) => t,
                                    None => {
                                        r.fail("no-trait", &input, "trait Tr not found in the expansion".into());
                                        return;
                                    }
                                };
                                // oracle, straight from the property statement
                                let unimock_on = uni.unwrap_or(matches!(v, Variant::Unimock | Variant::ExportUnimock));
                                let want_unimock = unimock_on && (mode == Mode::Trait || api);
                                let want_mockall = mk.unwrap_or(false);
                                let exporting = ex.unwrap_or(matches!(v, Variant::Export | Variant::ExportUnimock));
                                let found: Vec<(MockKind, bool)> = tr.attrs.iter().filter_map(classify_mock_attr).collect();
                                let n_uni = found.iter().filter(|(k, _)| *k == MockKind::Unimock).count();
                                let n_mk = found.iter().filter(|(k, _)| *k == MockKind::Mockall).count();
                                if n_uni != want_unimock as usize {
                                    r.fail("unimock-presence", &input, format!("expected {} unimock derivation(s) on the trait, found {}", want_unimock as usize, n_uni));
                                }
                                if n_mk != want_mockall as usize {
                                    r.fail("mockall-presence", &input, format!("expected {} mockall derivation(s) on the trait, found {}", want_mockall as usize, n_mk));
                                }
                                for (k, gated) in &found {
                                    if *gated == exporting {
                                        r.fail(
                                            "test-gating",
                                            &input,
                                            format!("{:?} derivation is {} but the invocation is {}", k, if *gated { "wrapped in cfg_attr(test, ..)" } else { "unconditional" }, if exporting { "exporting" } else { "not exporting" }),
                                        );
                                    }
                                }
                            });
                        }
                    }
                }
            }
        }
    }
}

fn expand_str(v: Variant, attr: &str, item: &str) -> String {
    canon(&expand(v, attr, item))
}

fn c17_bare(_ctx: &Ctx, r: &mut Report) {
    r.domain = "bool options {no_deps, export, unimock, mockall} x {fn, mod, trait where accepted} x 4 macro variants, with and without mock_api".into();
    r.bound = "exhaustive over the listed options".into();
    for mode in [Mode::Fn, Mode::Mod, Mode::Trait] {
        let names: &[&str] = if mode == Mode::Trait { &["unimock", "mockall"] } else { &["no_deps", "export", "unimock", "mockall"] };
        for v in Variant::ALL {
            for api in [false, true] {
                for name in names {
                    let extra = if api { vec!["mock_api = TrMock".to_string()] } else { vec![] };
                    let mk = |o: Option<String>| {
                        let mut opts = extra.clone();
                        if let Some(o) = o {
                            opts.insert(0, o);
                        }
                        attr_for(mode, &opts)
                    };
                    let bare = mk(Some(name.to_string()));
                    let eq_true = mk(Some(format!("{} = true", name)));
                    let eq_false = mk(Some(format!("{} = false", name)));
                    let absent = mk(None);
                    for item in items_for(mode) {
                        let input = format!("{} {:?} {} api={} item=`{}`", v.name(), mode, name, api, item);
                        r.guarded(&input, |r| {
                            let a = expand_str(v, &bare, item);
                            let b = expand_str(v, &eq_true, item);
                            if a != b {
                                r.fail("bare-vs-true", &input, format!("`{}` and `{} = true` expand differently", name, name));
                            }
                            // `no_deps = false` / `export = false` are the same as omitting them, before variant defaults
                            if (*name == "no_deps") || (*name == "export" && matches!(v, Variant::Entrait | Variant::Unimock)) {
                                let c = expand_str(v, &eq_false, item);
                                let d = expand_str(v, &absent, item);
                                if c != d {
                                    r.fail("false-vs-absent", &input, format!("`{} = false` and omitting it expand differently", name));
                                }
                            }
                        });
                    }
                }
            }
        }
    }
}

fn c17_order(ctx: &Ctx, r: &mut Report) {
    let max = if ctx.tier == Tier::Thorough { 6 } else { 3 };
    r.domain = "all subsets of size <= bound of {no_deps, export, mock_api=TrMock, unimock, mockall=false, ?Send} (fn, mod) / {mock_api, unimock, mockall, ?Send, delegate_by=ref} (trait), all orderings".into();
    r.bound = format!("subset size <= {}", max);
    for mode in [Mode::Fn, Mode::Mod, Mode::Trait] {
        let pool: Vec<&str> = if mode == Mode::Trait {
            vec!["mock_api = TrMock", "unimock", "mockall = true", "?Send", "delegate_by = ref"]
        } else {
            vec!["no_deps", "export", "mock_api = TrMock", "unimock", "mockall = false", "?Send"]
        };
        for sub in subsets(pool.len()) {
            if sub.len() < 2 || sub.len() > max {
                continue;
            }
            let base: Vec<String> = sub.iter().map(|i| pool[*i].to_string()).collect();
            let item = if mode == Mode::Trait { "trait Tr { async fn f(&self, a: i32) -> i32; }" } else { item_for(mode) };
            let reference = expand_str(Variant::Entrait, &attr_for(mode, &base), item);
            for perm in permutations(&sub) {
                let opts: Vec<String> = perm.iter().map(|i| pool[*i].to_string()).collect();
                let attr = attr_for(mode, &opts);
                let input = format!("{:?} ({})", mode, attr);
                r.guarded(&input, |r| {
                    let got = expand_str(Variant::Entrait, &attr, item);
                    if got != reference {
                        r.fail("order-dependence", &input, format!("expansion differs from the one for ({})", attr_for(mode, &base)));
                    }
                });
            }
        }
    }
}

fn c17_accepted(_ctx: &Ctx, r: &mut Report) {
    r.domain = "every option {no_deps, debug=false, export, ?Send, mock_api=M, unimock, mockall, delegate_by=ref, delegate_by=Borrow, bogus, ?Sized} on {fn, mod, trait, impl}".into();
    r.bound = "exhaustive, one option at a time".into();
    let opts = ["no_deps", "debug = false", "export", "?Send", "mock_api = TrMock", "unimock", "mockall", "delegate_by = ref", "delegate_by = Borrow"];
    // documented targets (README option table / property C17)
    let accepted = |target: &str, o: &str| -> bool {
        let name = o.split(|c: char| c == ' ' || c == '=').next().unwrap();
        match target {
            "fn" | "mod" => matches!(name, "no_deps" | "debug" | "export" | "?Send" | "mock_api" | "unimock" | "mockall"),
            "trait" => matches!(name, "debug" | "?Send" | "mock_api" | "unimock" | "mockall" | "delegate_by"),
            "impl" => matches!(name, "debug"),
            _ => false,
        }
    };
    let items = [
        ("fn", "fn f(deps: &impl Any) {}"),
        ("mod", "mod m { pub fn f(deps: &impl Any) {} }"),
        ("trait", "trait Tr { fn f(&self); }"),
        ("impl", "impl TrImpl for X { fn f<D>(deps: &D) {} }"),
    ];
    for (target, item) in items {
        for o in opts {
            let attr = match target {
                "fn" | "mod" => format!("Tr, {}", o),
                _ => o.to_string(),
            };
            let input = format!("#[entrait({})] {}", attr, item);
            r.guarded(&input, |r| {
                let out = expand(Variant::Entrait, &attr, item);
                let err = compile_error_of(&out);
                match (accepted(target, o), err) {
                    (true, Some(e)) => r.fail("rejected-documented-option", &input, format!("documented option rejected: {}", e)),
                    (false, None) => r.fail("accepted-undocumented-option", &input, "option not documented for this target was accepted".into()),
                    (false, Some(e)) if !e.contains("Unsupported option") => r.fail("wrong-diagnostic", &input, format!("expected `Unsupported option`, got {}", e)),
                    _ => {}
                }
            });
        }
        if target == "trait" {
            for bogus in ["bogus", "bogus = true", "?Sized"] {
                let attr = format!("mockall = false, {}", bogus);
                let input = format!("#[entrait({})] {}", attr, item);
                r.guarded(&input, |r| {
                    let out = expand(Variant::Entrait, &attr, item);
                    match compile_error_of(&out) {
                        None => r.fail("unknown-accepted", &input, "unknown option accepted".into()),
                        Some(e) => {
                            if !e.contains("Unkonwn entrait option") {
                                r.fail("wrong-diagnostic", &input, format!("expected the unknown-option diagnostic, got {}", e));
                            }
                        }
                    }
                });
            }
        }
        for bogus in ["bogus", "bogus = true", "?Sized"] {
            let attr = match target {
                "fn" | "mod" => format!("Tr, {}", bogus),
                _ => bogus.to_string(),
            };
            let input = format!("#[entrait({})] {}", attr, item);
            r.guarded(&input, |r| {
                let out = expand(Variant::Entrait, &attr, item);
                match compile_error_of(&out) {
                    None if target == "trait" && !bogus.starts_with('?') => {
                        // a leading identifier on a trait is the delegation-target trait name; `bogus = true` must still fail
                        if bogus.contains('=') {
                            r.fail("unknown-accepted", &input, "unknown option accepted".into());
                        }
                    }
                    None => r.fail("unknown-accepted", &input, "unknown option accepted".into()),
                    Some(e) => {
                        // C15: the specific message. On a trait the first argument position doubles as the
                        // delegation-target trait name, so only "rejected" is demanded there; the specific
                        // message is demanded in second position below.
                        if !(e.contains("Unkonwn entrait option") || target == "trait") {
                            r.fail("wrong-diagnostic", &input, format!("expected the unknown-option diagnostic, got {}", e));
                        }
                    }
                }
            });
        }
    }
}

fn c17_variants(_ctx: &Ctx, r: &mut Report) {
    r.domain = "4 macro variants x export {absent,bare,=true,=false} x unimock {absent,bare,=true,=false} x mock_api {absent,present} x mockall {absent, true} x {fn, mod} (+ trait without export)".into();
    r.bound = "exhaustive".into();
    let quad = [None, Some("bare"), Some("true"), Some("false")];
    let spell = |name: &str, v: Option<&str>| -> Option<String> {
        match v {
            None => None,
            Some("bare") => Some(name.to_string()),
            Some(b) => Some(format!("{} = {}", name, b)),
        }
    };
    for mode in [Mode::Fn, Mode::Mod, Mode::Trait] {
        for v in [Variant::Export, Variant::Unimock, Variant::ExportUnimock] {
            for ex in quad {
                if mode == Mode::Trait && (ex.is_some() || v != Variant::Unimock) {
                    continue;
                }
                for uni in quad {
                    for api in [false, true] {
                        for mk in [false, true] {
                            let mut opts = vec![];
                            if let Some(s) = spell("export", ex) {
                                opts.push(s);
                            }
                            if let Some(s) = spell("unimock", uni) {
                                opts.push(s);
                            }
                            if api {
                                opts.push("mock_api = TrMock".into());
                            }
                            if mk {
                                opts.push("mockall".into());
                            }
                            // the equivalent plain-entrait argument list
                            let mut eq = opts.clone();
                            if matches!(v, Variant::Export | Variant::ExportUnimock) && ex.is_none() {
                                eq.push("export".into());
                            }
                            if matches!(v, Variant::Unimock | Variant::ExportUnimock) && uni.is_none() {
                                eq.push("unimock".into());
                            }
                            let a1 = attr_for(mode, &opts);
                            let a2 = attr_for(mode, &eq);
                            let input = format!("#[{}({})] vs #[entrait({})] on {:?}", v.name(), a1, a2, mode);
                            r.guarded(&input, |r| {
                                let x = expand_str(v, &a1, item_for(mode));
                                let y = expand_str(Variant::Entrait, &a2, item_for(mode));
                                if x != y {
                                    r.fail("variant-not-shorthand", &input, "the two invocations expand differently".into());
                                }
                            });
                        }
                    }
                }
            }
        }
    }
}
