//! Contracts on the fn / mod assemblers: delegating impl (C01), impl header (C04, C19),
//! concrete dependencies (C05), visibility (C13), attribute placement (C18).
use super::c_opts::{attr_for, Mode};
use super::*;

pub fn contracts() -> Vec<Contract> {
    vec![
        Contract { name: "c01_delegating_method_calls_own_fn", function: "fn_delegation_codegen.rs::FnDelegationCodegen::{gen_impl_block, gen_delegating_fn_item}, entrait_fn/mod.rs::{entrait_for_single_fn, entrait_for_mod}", props: &["C01", "C11"], run: c01_delegation },
        Contract { name: "c11_unimock_attribute_parameters", function: "attributes.rs::UnimockAttrParams::{to_tokens, unmock_with}, trait_codegen.rs::gen_trait_def", props: &["C11"], run: c11_unimock },
        Contract { name: "c04_impl_header_bounds", function: "analyze_generics.rs::{analyze_fn_deps, find_deps_generic_bounds}, fn_delegation_codegen.rs::gen_impl_block", props: &["C04", "C19", "C01", "C03"], run: c04_header },
        Contract { name: "c05_concrete_dependency", function: "analyze_generics.rs::{extract_deps_from_type, detect_trait_dependency_mode}, trait_codegen.rs::gen_trait_def", props: &["C05", "C15"], run: c05_concrete },
        Contract { name: "c13_trait_visibility", function: "entrait_fn/input_attr.rs::EntraitFnAttr::parse, trait_codegen.rs::TraitVisibility, entrait_fn/mod.rs::entrait_for_mod, entrait_trait/mod.rs::gen_impl_delegation_trait_defs", props: &["C13", "C08"], run: c13_visibility },
        Contract { name: "c18_attribute_placement", function: "entrait_fn/mod.rs, signature/converter.rs::convert_fn_to_trait_fn, sub_attributes.rs::analyze_sub_attributes, trait_codegen.rs::gen_trait_def, fn_delegation_codegen.rs::gen_impl_block", props: &["C18"], run: c18_attrs },
    ]
}

// ------------------------------------------------------------------------------------ generators

#[derive(Clone, Copy, PartialEq, Eq, Debug)]
pub enum Deps {
    RefGeneric,   // <D>(deps: &D)
    ValGeneric,   // <D>(deps: D)
    RefImpl,      // (deps: &impl Bar)
    ValImpl,      // (deps: impl Bar)
    Concrete,     // (deps: &App)
    NoDeps,       // no_deps
}

pub const PARAMS: [(&str, &str); 7] = [
    ("a", "i32"),
    ("b", "i32"),
    ("mut c", "String"),
    ("_", "u8"),
    ("(x, y)", "(i32, i32)"),
    ("Wrap(w)", "Wrap"),
    ("r#type", "u16"),
];

pub fn fn_source(name: &str, vis: &str, is_async: bool, deps: Deps, params: &[usize], ret: &str) -> String {
    let mut ps: Vec<String> = vec![];
    let generics = match deps {
        Deps::RefGeneric | Deps::ValGeneric => "<D>",
        _ => "",
    };
    match deps {
        Deps::RefGeneric => ps.push("deps: &D".into()),
        Deps::ValGeneric => ps.push("deps: D".into()),
        Deps::RefImpl => ps.push("deps: &impl Bar".into()),
        Deps::ValImpl => ps.push("deps: impl Bar".into()),
        Deps::Concrete => ps.push("deps: &App".into()),
        Deps::NoDeps => {}
    }
    for p in params {
        ps.push(format!("{}: {}", PARAMS[*p].0, PARAMS[*p].1));
    }
    format!("{} {} fn {}{}({}) {} {{ body_of!({}) }}", vis, if is_async { "async" } else { "" }, name, generics, ps.join(", "), ret, name)
}

fn call_parts(e: &syn::Expr) -> Option<(bool, &syn::ExprCall)> {
    match e {
        syn::Expr::Await(a) => match a.base.as_ref() {
            syn::Expr::Call(c) => Some((true, c)),
            _ => None,
        },
        syn::Expr::Call(c) => Some((false, c)),
        _ => None,
    }
}

fn typed_idents(sig: &syn::Signature) -> Vec<Option<String>> {
    sig.inputs
        .iter()
        .filter_map(|a| match a {
            syn::FnArg::Typed(pt) => Some(match pt.pat.as_ref() {
                syn::Pat::Ident(pi) => Some(pi.ident.to_string()),
                _ => None,
            }),
            _ => None,
        })
        .collect()
}

/// the contract of C01 on one impl method: body is exactly `[Self::]f([self,] p1, .., pn)[.await]`
pub fn check_delegating_method(r: &mut Report, input: &str, m: &syn::ImplItemFn, fn_name: &str, want_self: bool, want_await: bool, n_params: usize, scoped: bool) {
    if m.sig.ident != fn_name {
        r.fail("method-name", input, format!("method `{}` where `{}` was expected", m.sig.ident, fn_name));
    }
    let idents = typed_idents(&m.sig);
    if idents.len() != n_params {
        r.fail("arity", input, format!("method `{}` declares {} typed parameters, the function has {}", fn_name, idents.len(), n_params));
    }
    if m.block.stmts.len() != 1 {
        r.fail("body-shape", input, format!("method body has {} statements, expected the single forwarding call", m.block.stmts.len()));
        return;
    }
    let e = match &m.block.stmts[0] {
        syn::Stmt::Expr(e, None) => e,
        _ => {
            r.fail("body-shape", input, "method body is not a tail expression".into());
            return;
        }
    };
    let (awaited, call) = match call_parts(e) {
        Some(x) => x,
        None => {
            r.fail("body-shape", input, format!("method body is not a call: {}", tt_string(e)));
            return;
        }
    };
    if awaited != want_await {
        r.fail("await", input, format!("`.await` {} but the function is {}", if awaited { "present" } else { "absent" }, if want_await { "async" } else { "sync" }));
    }
    let callee = tt_string(&call.func).replace(' ', "");
    let want_callee = if scoped { format!("Self::{}", fn_name) } else { fn_name.to_string() };
    if callee != want_callee {
        r.fail("callee", input, format!("method `{}` calls `{}`, expected `{}`", fn_name, callee, want_callee));
    }
    let args: Vec<String> = call.args.iter().map(|a| tt_string(a)).collect();
    let mut want: Vec<String> = vec![];
    if want_self {
        want.push("self".into());
    }
    for (i, id) in idents.iter().enumerate() {
        match id {
            Some(s) => want.push(s.clone()),
            None => {
                r.fail("param-not-ident", input, format!("typed parameter {} of `{}` is not a plain identifier", i, fn_name));
                want.push("?".into());
            }
        }
    }
    if args != want {
        r.fail("arguments", input, format!("call passes ({}) but the declared parameters are ({})", args.join(", "), want.join(", ")));
    }
}

pub fn impl_methods(i: &syn::ItemImpl) -> Vec<&syn::ImplItemFn> {
    i.items
        .iter()
        .filter_map(|x| match x {
            syn::ImplItem::Fn(m) => Some(m),
            _ => None,
        })
        .collect()
}

pub fn trait_methods(t: &syn::ItemTrait) -> Vec<&syn::TraitItemFn> {
    t.items
        .iter()
        .filter_map(|x| match x {
            syn::TraitItem::Fn(m) => Some(m),
            _ => None,
        })
        .collect()
}

fn c01_delegation(ctx: &Ctx, r: &mut Report) {
    let max = if ctx.tier == Tier::Thorough { 4 } else { 3 };
    r.domain = "fn and 2-fn mod inputs; deps {&D, D, &impl Bar, impl Bar, &App (fn only), no_deps} x {sync, async} x parameter lists over {a:i32, b:i32, mut c:String, _:u8, (x,y), Wrap(w), r#type}".into();
    r.bound = format!("arity 0..{}; module = two fns with the same parameter list; mock options {{none, mockall}}", max);
    for mode in [Mode::Fn, Mode::Mod] {
        for deps in [Deps::RefGeneric, Deps::ValGeneric, Deps::RefImpl, Deps::ValImpl, Deps::Concrete, Deps::NoDeps] {
            if mode == Mode::Mod && deps == Deps::Concrete {
                continue;
            }
            for is_async in [false, true] {
                for n in 0..=max {
                    // quick: full product up to arity 2, arity >= 3 over a sliding selection
                    let seqs: Vec<Vec<usize>> = if n <= 2 { sequences(PARAMS.len(), n) } else { (0..PARAMS.len()).map(|s| (0..n).map(|k| (s + k * 2) % PARAMS.len()).collect()).collect() };
                    for ps in seqs {
                        for mock in ["", "mockall"] {
                            let mut opts: Vec<String> = vec![];
                            if deps == Deps::NoDeps {
                                opts.push("no_deps".into());
                            }
                            if !mock.is_empty() {
                                opts.push(mock.into());
                            }
                            let attr = attr_for(Mode::Fn, &opts);
                            let names: Vec<&str> = if mode == Mode::Fn { vec!["f"] } else { vec!["f", "g"] };
                            let fns: Vec<String> = names.iter().map(|nm| fn_source(nm, if mode == Mode::Mod { "pub" } else { "" }, is_async, deps, &ps, "-> i32")).collect();
                            let item = if mode == Mode::Fn { fns[0].clone() } else { format!("mod m {{ {} fn private_helper() {{}} }}", fns.join(" ")) };
                            let input = format!("#[entrait({})] {}", attr, item);
                            r.guarded(&input, |r| {
                                let out = expand(Variant::Entrait, &attr, &item);
                                if let Some(e) = compile_error_of(&out) {
                                    r.fail("unexpected-error", &input, e);
                                    return;
                                }
                                let file = match parse_file(&out) {
                                    Ok(f) => f,
                                    Err(e) => {
                                        r.fail("unparsable", &input, e);
                                        return;
                                    }
                                };
                                let items: &Vec<syn::Item> = if mode == Mode::Fn { &file.items } else { mod_items(&file.items, "m").unwrap_or(&file.items) };
                                let impls = find_impls(items, "Tr");
                                if impls.len() != 1 {
                                    r.fail("impl-count", &input, format!("expected exactly one `impl Tr for ..`, found {}", impls.len()));
                                    return;
                                }
                                let ms = impl_methods(impls[0]);
                                let tr = find_trait(items, "Tr");
                                let tms = tr.map(trait_methods).unwrap_or_default();
                                if ms.len() != names.len() || tms.len() != names.len() {
                                    r.fail("method-count", &input, format!("{} fns, {} trait methods, {} impl methods", names.len(), tms.len(), ms.len()));
                                    return;
                                }
                                for (k, nm) in names.iter().enumerate() {
                                    check_delegating_method(r, &input, ms[k], nm, deps != Deps::NoDeps, is_async, ps.len(), false);
                                    if tms[k].sig.ident != *nm {
                                        r.fail("trait-method-order", &input, format!("trait method {} is `{}`, expected `{}`", k, tms[k].sig.ident, nm));
                                    }
                                    // receiver shape: by-value deps -> `self`, otherwise `&self`
                                    match ms[k].sig.inputs.first() {
                                        Some(syn::FnArg::Receiver(rc)) => {
                                            let by_ref = rc.reference.is_some();
                                            let want_ref = !matches!(deps, Deps::ValGeneric | Deps::ValImpl);
                                            if by_ref != want_ref || rc.mutability.is_some() {
                                                r.fail("receiver", &input, format!("receiver is `{}`", tt_string(rc)));
                                            }
                                        }
                                        _ => r.fail("receiver", &input, "generated method has no receiver".into()),
                                    }
                                }
                            });
                        }
                    }
                }
            }
        }
    }
}

// ------------------------------------------------------------------------------------ C04

/// ways of declaring dependency bounds; each yields (generics, first param, where clause, declared bounds in order)
fn bound_decls() -> Vec<(&'static str, &'static str, &'static str, Vec<&'static str>)> {
    vec![
        ("<D>", "deps: &D", "", vec![]),
        ("<D: A>", "deps: &D", "", vec!["A"]),
        ("<D: A + B>", "deps: &D", "", vec!["A", "B"]),
        ("<D>", "deps: &D", "where D: A", vec!["A"]),
        ("<D>", "deps: &D", "where D: A + B", vec!["A", "B"]),
        ("<D: A>", "deps: &D", "where D: B", vec!["A", "B"]),
        ("<D>", "deps: &D", "where D: A, D: B", vec!["A", "B"]),
        ("<D: A>", "deps: &D", "where D: B, D: C", vec!["A", "B", "C"]),
        ("<D: A, T: Clone>", "deps: &D", "where T: Copy, D: B", vec!["A", "B"]),
        ("", "deps: &impl A", "", vec!["A"]),
        ("", "deps: &(impl A + B)", "", vec!["A", "B"]),
        ("", "deps: impl A + B", "", vec!["A", "B"]),
        ("<D: A>", "deps: D", "where D: B", vec!["A", "B"]),
        ("<D: path::A<u8> + 'static>", "deps: &D", "", vec!["path :: A < u8 >", "'static"]),
        // a relaxed bound widens the declaration of the parameter; it is not a requirement on the implementing type
        ("<D: A + ?Sized>", "deps: &D", "", vec!["A"]),
        ("", "deps: &(impl A + ?Sized + B)", "", vec!["A", "B"]),
        ("<D: A>", "deps: &D", "where D: ?Sized + B", vec!["A", "B"]),
        // bounds that differ only in their generic arguments or in their path are different bounds
        ("<D: Repo<u8>>", "deps: &D", "where D: Repo<u16>", vec!["Repo < u8 >", "Repo < u16 >"]),
        ("", "deps: &(impl users::Store + orders::Store)", "", vec!["users :: Store", "orders :: Store"]),
    ]
}

fn bound_strings(b: &syn::punctuated::Punctuated<syn::TypeParamBound, syn::token::Plus>) -> Vec<String> {
    b.iter().map(|x| tt_string(x)).collect()
}

fn c04_header(_ctx: &Ctx, r: &mut Report) {
    r.domain = "19 ways of declaring 0..3 dependency bounds (inline, where, split, several predicates, impl A + B, by value, with `?Sized`) x {fn, mod of two fns with different declarations} x option sets {none, mockall, unimock + mock_api, ?Send, ?Send + mockall, mockall = false, unimock = false + mock_api, unimock = false + mock_api + mockall, unimock (no mock_api) + mockall = false}".into();
    r.bound = "exhaustive over the listed declarations and all ordered pairs for modules".into();
    let decls = bound_decls();
    // "mock support" is about what is switched on, not about what is written: `= false` counts like an absent option
    let mocks: [(&str, bool); 9] = [("", false), ("mockall", true), ("unimock, mock_api = TrMock", true), ("?Send", false), ("?Send, mockall", true),
        ("mockall = false", false), ("unimock = false, mock_api = TrMock", false), ("unimock = false, mock_api = TrMock, mockall = true", true), ("unimock, mockall = false", false)];
    let mut cases: Vec<(String, String, Vec<String>, bool, bool)> = vec![]; // (attr, item, bounds, by_value, mockable)
    for (mock, mockable) in mocks {
        let attr = if mock.is_empty() { "Tr".to_string() } else { format!("Tr, {}", mock) };
        for (g, p, w, bs) in &decls {
            let by_value = !p.contains('&');
            let item = format!("fn f{}({}, x: i32) {} {{}}", g, p, w);
            cases.push((attr.clone(), item, bs.iter().map(|s| s.to_string()).collect(), by_value, mockable));
        }
        for (g1, p1, w1, b1) in &decls {
            for (g2, p2, w2, b2) in &decls {
                let item = format!("mod m {{ pub fn f{}({}) {} {{}} pub fn g{}({}, y: u8) {} {{}} }}", g1, p1, w1, g2, p2, w2);
                let mut bs: Vec<String> = b1.iter().map(|s| s.to_string()).collect();
                bs.extend(b2.iter().map(|s| s.to_string()));
                cases.push((attr.clone(), item, bs, !p1.contains('&') || !p2.contains('&'), mockable));
            }
        }
    }
    for (attr, item, bounds, by_value, mockable) in cases {
        let input = format!("#[entrait({})] {}", attr, item);
        r.guarded(&input, |r| {
            let out = expand(Variant::Entrait, &attr, &item);
            if let Some(e) = compile_error_of(&out) {
                r.fail("unexpected-error", &input, e);
                return;
            }
            let file = match parse_file(&out) {
                Ok(f) => f,
                Err(e) => {
                    r.fail("unparsable", &input, e);
                    return;
                }
            };
            let items: &Vec<syn::Item> = mod_items(&file.items, "m").unwrap_or(&file.items);
            let impls = find_impls(items, "Tr");
            if impls.len() != 1 {
                r.fail("impl-count", &input, format!("expected one impl of Tr, found {}", impls.len()));
                return;
            }
            let im = impls[0];
            // impl generics: EntraitT: ::core::marker::Sync [+ ::core::marker::Send] + 'static first
            let first = im.generics.params.iter().find(|p| !matches!(p, syn::GenericParam::Lifetime(_)));
            match first {
                Some(syn::GenericParam::Type(tp)) if tp.ident == "EntraitT" => {
                    let got = bound_strings(&tp.bounds);
                    let mut want = vec![":: core :: marker :: Sync".to_string()];
                    if by_value {
                        want.push(":: core :: marker :: Send".to_string());
                    }
                    want.push("'static".to_string());
                    if got != want {
                        r.fail("thread-safety-bounds", &input, format!("EntraitT: {} but the fixed requirement is {}", got.join(" + "), want.join(" + ")));
                    }
                }
                _ => r.fail("impl-generics", &input, "first impl generic is not EntraitT".into()),
            }
            // self type
            let self_ty = tt_string(&im.self_ty);
            let want_ty = if mockable { ":: entrait :: Impl < EntraitT >" } else { "EntraitT" };
            if self_ty != want_ty {
                r.fail("self-type", &input, format!("implemented for `{}`, expected `{}`", self_ty, want_ty));
            }
            // where clause: exactly `Self: B1 + .. + Bn` (plus lifted non-deps predicates)
            let mut self_bounds: Option<Vec<String>> = None;
            let mut n_self_preds = 0;
            if let Some(wc) = &im.generics.where_clause {
                for p in &wc.predicates {
                    if let syn::WherePredicate::Type(pt) = p {
                        if tt_string(&pt.bounded_ty) == "Self" {
                            n_self_preds += 1;
                            self_bounds = Some(bound_strings(&pt.bounds));
                        }
                    }
                }
            }
            if bounds.is_empty() {
                if n_self_preds != 0 {
                    r.fail("undeclared-requirement", &input, format!("no bound was declared but the impl requires Self: {}", self_bounds.unwrap_or_default().join(" + ")));
                }
            } else {
                match self_bounds {
                    Some(got) if n_self_preds == 1 => {
                        // "no declared bound dropped, none added": a set comparison (order and repetition are immaterial)
                        let as_set = |v: &Vec<String>| -> std::collections::BTreeSet<String> { v.iter().cloned().collect() };
                        if as_set(&got) != as_set(&bounds) {
                            r.fail("bounds-mismatch", &input, format!("declared bounds [{}] but the impl requires Self: [{}]", bounds.join(", "), got.join(", ")));
                        }
                    }
                    _ => r.fail("bounds-dropped", &input, format!("declared bounds [{}] but the impl has {} `Self:` predicates", bounds.join(", "), n_self_preds)),
                }
            }
        });
    }
}

// ------------------------------------------------------------------------------------ C05

fn c05_concrete(_ctx: &Ctx, r: &mut Report) {
    r.domain = "concrete dependency type shapes {App, path::App, ::abs::path::App, <App as HasDb>::Db, App<u8>, (A, B), &'a App, [u8; 4], &mut-free references, parenthesised} x {sync, async} x {fn, mod, impl block}".into();
    r.bound = "exhaustive over the listed shapes".into();
    let shapes: [(&str, &str, &str); 11] = [
        ("", "&::abs::path::App", ":: abs :: path :: App"),
        ("", "&<App as HasDb>::Db", "< App as HasDb > :: Db"),
        ("", "&::App", ":: App"),
        ("", "&App", "App"),
        ("", "&path::to::App", "path :: to :: App"),
        ("", "&App<u8>", "App < u8 >"),
        ("", "&(A, B)", "(A , B)"),
        ("<'a>", "&'a App", "App"),
        ("", "&[u8; 4]", "[u8 ; 4]"),
        ("", "App", "App"),
        ("", "&(App)", "App"),
    ];
    let mut shapes2: Vec<(String, &str, &str, Vec<&str>)> = shapes.iter().map(|(g, t, w)| (g.to_string(), *t, *w, vec![])).collect();
    for (_, ty, want_self) in shapes {
        shapes2.push(("<V: Into<i32>>".to_string(), ty, want_self, vec!["V : Into < i32 >"]));
        shapes2.push(("<K, const N: usize>".to_string(), ty, want_self, vec!["K", "const N : usize"]));
    }
    for (g, ty, want_self, want_generics) in shapes2 {
        if g.contains('<') && ty.contains("'a") && !g.contains("'a") {
            continue;
        }
        for is_async in [false, true] {
            let item = format!("{} fn f{}(deps: {}, a: i32) -> i32 {{ a }}", if is_async { "async" } else { "" }, g, ty);
            let input = format!("#[entrait(Tr)] {}", item);
            r.guarded(&input, |r| {
                let out = expand(Variant::Entrait, "Tr", &item);
                if let Some(e) = compile_error_of(&out) {
                    r.fail("unexpected-error", &input, e);
                    return;
                }
                let file = match parse_file(&out) {
                    Ok(f) => f,
                    Err(e) => {
                        r.fail("unparsable", &input, e);
                        return;
                    }
                };
                let tr = match find_trait(&file.items, "Tr") {
                    Some(t) => t,
                    None => {
                        r.fail("no-trait", &input, "trait not found".into());
                        return;
                    }
                };
                let tg: Vec<String> = tr.generics.params.iter().map(|p| tt_string(p)).collect();
                if tg != want_generics.iter().map(|s| s.to_string()).collect::<Vec<_>>() {
                    r.fail("trait-generics", &input, format!("leaf trait generics [{}], the function's own generics are [{}]", tg.join(", "), want_generics.join(", ")));
                }
                let nested: Vec<String> = tr.attrs.iter().map(|a| tt_string(a)).filter(|s| s.contains("entrait :: entrait")).collect();
                if nested != vec!["# [:: entrait :: entrait (unimock = false , mockall = false)]".to_string()] {
                    r.fail("nested-attribute", &input, format!("leaf trait must carry exactly #[::entrait::entrait(unimock = false, mockall = false)], found {:?}", nested));
                }
                let impls = find_impls(&file.items, "Tr");
                if impls.len() != 1 {
                    r.fail("impl-count", &input, format!("{} impls", impls.len()));
                    return;
                }
                let st = tt_string(&impls[0].self_ty);
                if st != want_self {
                    r.fail("self-type", &input, format!("implemented for `{}`, expected the concrete type `{}`", st, want_self));
                }
                if impls[0].generics.params.iter().any(|p| matches!(p, syn::GenericParam::Type(t) if t.ident == "EntraitT")) {
                    r.fail("blanket-generic", &input, "concrete impl must not be generic over EntraitT".into());
                }
                let ms = impl_methods(impls[0]);
                if ms.len() == 1 {
                    check_delegating_method(r, &input, ms[0], "f", true, is_async, 1, false);
                }
            });
        }
    }
    // documented diagnostics for module / impl-block inputs
    for (item, needle) in [
        ("mod m { pub fn f(deps: &App) {} }", "Using concrete dependencies in a module is an anti-pattern"),
        ("impl TrImpl for X { fn f(deps: &App) {} }", "Cannot (yet) use concrete dependency in an impl block"),
    ] {
        let attr = if item.starts_with("mod") { "Tr" } else { "" };
        let input = format!("#[entrait({})] {}", attr, item);
        r.guarded(&input, |r| {
            let out = expand(Variant::Entrait, attr, item);
            match compile_error_of(&out) {
                Some(e) if e.contains(needle) => {}
                Some(e) => r.fail("wrong-diagnostic", &input, format!("got {}", e)),
                None => r.fail("no-diagnostic", &input, "expected a diagnostic".into()),
            }
        });
    }
}

// ------------------------------------------------------------------------------------ C13

/// the scope a visibility grants access to, as a path (`None` = everywhere, `["self"]` = private)
pub fn scope_of(v: &syn::Visibility) -> Option<Vec<String>> {
    match v {
        syn::Visibility::Public(_) => None,
        syn::Visibility::Inherited => Some(vec!["self".to_string()]),
        syn::Visibility::Restricted(r) => {
            let mut p: Vec<String> = r.path.segments.iter().map(|s| s.ident.to_string()).collect();
            if r.path.leading_colon.is_some() {
                p.insert(0, "::".to_string());
            }
            Some(p)
        }
    }
}

fn c13_visibility(_ctx: &Ctx, r: &mut Report) {
    r.domain = "requested visibility {none, pub, pub(crate), pub(super), pub(self), pub(in self), pub(in super), pub(in super::super), pub(in super::a), pub(in crate::a), pub(in ::a)} x fn visibility {none, pub, pub(crate)} x {fn, mod}; trait inputs with delegation target x trait visibility {none, pub, pub(crate)} x {static, dynamic}".into();
    r.bound = "exhaustive".into();
    let req = ["", "pub", "pub(crate)", "pub(super)", "pub(self)", "pub(in self)", "pub(in super)", "pub(in super::super)", "pub(in super::a)", "pub(in crate::a)", "pub(in ::a)"];
    for rv in req {
        for fv in ["", "pub", "pub(crate)"] {
            for mode in [Mode::Fn, Mode::Mod] {
                let attr = format!("{} Tr", rv);
                let item = if mode == Mode::Fn { format!("{} fn f(deps: &impl Any) {{}}", fv) } else { format!("{} mod m {{ pub fn f(deps: &impl Any) {{}} }}", fv) };
                let input = format!("#[entrait({})] {}", attr, item);
                r.guarded(&input, |r| {
                    let out = expand(Variant::Entrait, &attr, &item);
                    if let Some(e) = compile_error_of(&out) {
                        r.fail("unexpected-error", &input, e);
                        return;
                    }
                    let file = match parse_file(&out) {
                        Ok(f) => f,
                        Err(e) => {
                            r.fail("unparsable", &input, e);
                            return;
                        }
                    };
                    let want = tt_string(&syn::parse_str::<syn::Visibility>(rv).unwrap());
                    if mode == Mode::Fn {
                        let tr = find_trait(&file.items, "Tr");
                        match tr {
                            Some(t) => {
                                let got = tt_string(&t.vis);
                                if got != want {
                                    r.fail("trait-visibility", &input, format!("trait is `{}`, requested `{}`", got, want));
                                }
                            }
                            None => r.fail("no-trait", &input, "trait not found".into()),
                        }
                    } else {
                        let inner = mod_items(&file.items, "m").and_then(|it| find_trait(it, "Tr"));
                        match inner {
                            Some(t) => {
                                let got = tt_string(&t.vis);
                                // the trait is generated one module level below the scope the visibility was written in: it must
                                // be visible exactly as far as an item declared next to the module with the requested visibility
                                let want_scope = scope_of(&syn::parse_str::<syn::Visibility>(rv).unwrap()).map(|mut p| {
                                    if p.first().map(|s| s == "self" || s == "super").unwrap_or(false) {
                                        p.retain(|s| s != "self");
                                        p.insert(0, "super".to_string());
                                    }
                                    p
                                });
                                let mut got_scope = scope_of(&t.vis);
                                if let Some(p) = got_scope.as_mut() {
                                    if p.len() > 1 {
                                        p.retain(|s| s != "self");
                                    }
                                }
                                if got_scope != want_scope {
                                    r.fail("trait-visibility", &input, format!("trait inside the module is `{}` (visible in {:?}); declared next to the module with `{}` it would be visible in {:?}", got, got_scope, rv, want_scope));
                                }
                            }
                            None => r.fail("no-trait", &input, "trait not found in module".into()),
                        }
                        let uses: Vec<&syn::ItemUse> = file.items.iter().filter_map(|i| if let syn::Item::Use(u) = i { Some(u) } else { None }).collect();
                        if uses.len() != 1 {
                            r.fail("re-export", &input, format!("expected exactly one re-export next to the module, found {}", uses.len()));
                        } else {
                            let got = tt_string(&uses[0].vis);
                            if got != want {
                                r.fail("re-export-visibility", &input, format!("re-export is `{}`, requested `{}`", got, want));
                            }
                            if tt_string(&uses[0].tree) != "m :: Tr" {
                                r.fail("re-export-path", &input, format!("re-export names `{}`", tt_string(&uses[0].tree)));
                            }
                        }
                    }
                });
            }
        }
    }
    for tv in ["", "pub", "pub(crate)"] {
        for (attr, _kind) in [("TrImpl, delegate_by = DelegateTr", "static"), ("TrImpl, delegate_by = ref", "dynamic"), ("pub TrImpl, delegate_by = DelegateTr", "static"), ("pub(crate) TrImpl, delegate_by = ref", "dynamic"), ("pub TrImpl, delegate_by = Borrow", "dynamic")] {
            let item = format!("{} trait Tr {{ fn f(&self, a: i32) -> i32; }}", tv);
            let input = format!("#[entrait({})] {}", attr, item);
            r.guarded(&input, |r| {
                let out = expand(Variant::Entrait, attr, &item);
                if let Some(e) = compile_error_of(&out) {
                    r.fail("unexpected-error", &input, e);
                    return;
                }
                let file = match parse_file(&out) {
                    Ok(f) => f,
                    Err(e) => {
                        r.fail("unparsable", &input, e);
                        return;
                    }
                };
                let want = tt_string(&syn::parse_str::<syn::Visibility>(tv).unwrap());
                for name in ["Tr", "TrImpl"] {
                    match find_trait(&file.items, name) {
                        Some(t) => {
                            if tt_string(&t.vis) != want {
                                r.fail("target-trait-visibility", &input, format!("trait {} is `{}`, the original trait is `{}`", name, tt_string(&t.vis), want));
                            }
                        }
                        None => r.fail("no-trait", &input, format!("trait {} not found", name)),
                    }
                }
            });
        }
    }
}

// ------------------------------------------------------------------------------------ C18

fn attr_strings(a: &[syn::Attribute]) -> Vec<String> {
    a.iter().map(|x| tt_string(x)).collect()
}

fn c18_attrs(_ctx: &Ctx, r: &mut Report) {
    r.domain = "fn / mod / trait / impl-block inputs carrying {doc, inline, foreign macro, async_trait (bare, path, with args), automock, cfg} attributes on the item, its fns, parameters and trait methods".into();
    r.bound = "all subsets of size <= 3 of 7 item attributes x {fn}; fixed placements for mod / trait / impl".into();
    let pool = ["#[doc = \"d\"]", "#[inline]", "#[other::mac(1, 2)]", "#[async_trait]", "#[some::path::async_trait(?Send)]", "#[automock]", "#[allow(unused)]"];
    for sub in subsets(pool.len()) {
        if sub.len() > 3 {
            continue;
        }
        let attrs: Vec<&str> = sub.iter().map(|i| pool[*i]).collect();
        let item = format!("{} pub async fn f(#[allow(unused)] deps: &impl Any, #[cfg(all())] a: i32) -> i32 {{ a }}", attrs.join(" "));
        let input = format!("#[entrait(Tr)] {}", item);
        r.guarded(&input, |r| {
            let out = expand(Variant::Entrait, "Tr", &item);
            if let Some(e) = compile_error_of(&out) {
                r.fail("unexpected-error", &input, e);
                return;
            }
            let file = match parse_file(&out) {
                Ok(f) => f,
                Err(e) => {
                    r.fail("unparsable", &input, e);
                    return;
                }
            };
            let want: Vec<String> = attrs.iter().map(|a| tt_string(&ts(a))).collect();
            // the fn keeps every attribute, once, in order
            let fns: Vec<&syn::ItemFn> = file.items.iter().filter_map(|i| if let syn::Item::Fn(f) = i { Some(f) } else { None }).collect();
            if fns.len() != 1 {
                r.fail("fn-count", &input, format!("{} fns in the expansion", fns.len()));
                return;
            }
            if attr_strings(&fns[0].attrs) != want {
                r.fail("fn-attributes", &input, format!("fn carries {:?}, written {:?}", attr_strings(&fns[0].attrs), want));
            }
            let is_at = |s: &String| s.contains("async_trait");
            let is_am = |s: &String| s.contains("automock");
            let (tr, im) = (find_trait(&file.items, "Tr"), find_impls(&file.items, "Tr"));
            if let Some(t) = tr {
                let got = attr_strings(&t.attrs);
                let exp: Vec<String> = want.iter().filter(|s| is_at(s) || is_am(s)).cloned().collect();
                if got != exp {
                    r.fail("trait-attributes", &input, format!("generated trait carries {:?}, expected only the re-applied {:?}", got, exp));
                }
                for m in trait_methods(t) {
                    for a in &m.sig.inputs {
                        let n = match a {
                            syn::FnArg::Typed(p) => p.attrs.len(),
                            syn::FnArg::Receiver(rc) => rc.attrs.len(),
                        };
                        if n != 0 {
                            r.fail("param-attributes", &input, "parameter attribute survived in the generated signature".into());
                        }
                    }
                    if !m.attrs.is_empty() {
                        r.fail("method-attributes", &input, format!("trait method carries {:?}", attr_strings(&m.attrs)));
                    }
                }
            }
            if im.len() == 1 {
                let got = attr_strings(&im[0].attrs);
                let exp: Vec<String> = want.iter().filter(|s| is_at(s)).cloned().collect();
                if got != exp {
                    r.fail("impl-attributes", &input, format!("generated impl carries {:?}, expected only {:?}", got, exp));
                }
            }
        });
    }
    // parameter attributes are stripped from every generated signature, in every mode and position, for every form of
    // the dependency parameter
    let mut pa_cases: Vec<(String, String)> = vec![];
    for (g, d) in [("", "&impl Any"), ("<D: A>", "&D"), ("<D: A>", "D"), ("", "impl Any"), ("", "&App"), ("<'a, D>", "&'a D")] {
        for asy in ["", "async "] {
            pa_cases.push(("Tr".into(), format!("{}fn f{}(#[a0] deps: {}, #[allow(unused_variables)] #[a1] x: i32, #[a2] #[expect(unused)] #[doc = \"p\"] (y, z): (i32, i32)) {{}}", asy, g, d)));
            if d != "&App" {
                pa_cases.push(("Tr".into(), format!("mod m {{ pub fn g(deps: &impl Any) {{}} pub {}fn f{}(#[a0] deps: {}, #[allow(unused_variables)] #[a1] x: i32, #[a2] #[expect(unused)] #[doc = \"p\"] y: i32) {{}} }}", asy, g, d)));
            }
            if d.starts_with('&') && d != "&App" {
                for sel in ["", "ref"] {
                    pa_cases.push((sel.into(), format!("impl TrImpl for X {{ {}fn f{}(#[a0] deps: {}, #[allow(unused_variables)] #[a1] x: i32, #[a2] #[expect(unused)] #[doc = \"p\"] y: i32) {{}} }}", asy, g, d)));
                }
            }
        }
    }
    for (attr, item) in [
        ("Tr", "fn f(#[a0] deps: &impl Any, #[allow(unused_variables)] #[a1] x: i32, #[a2] #[expect(unused)] #[doc = \"p\"] y: i32, #[a3] z: i32) {}"),
        ("Tr, no_deps", "fn f(#[allow(unused_variables)] #[a1] x: i32, #[a2] #[expect(unused)] #[doc = \"p\"] y: i32) {}"),
        ("Tr", "mod m { pub fn f(#[a0] deps: &impl Any, #[allow(unused_variables)] #[a1] x: i32, #[a2] #[expect(unused)] #[doc = \"p\"] y: i32) {} pub fn g(#[b0] deps: &impl Any, #[b1] x: i32) {} }"),
        ("", "impl TrImpl for X { fn f<D>(#[a0] deps: &D, #[allow(unused_variables)] #[a1] x: i32, #[a2] #[expect(unused)] #[doc = \"p\"] y: i32, #[a3] z: i32) {} }"),
        ("ref", "impl TrImpl for X { fn f<D>(#[a0] deps: &D, #[allow(unused_variables)] #[a1] x: i32, #[a2] #[expect(unused)] #[doc = \"p\"] y: i32, #[a3] z: i32) {} }"),
        ("dyn", "impl TrImpl for X { async fn f<D>(#[a0] deps: &D, #[allow(unused_variables)] #[a1] x: i32, #[a2] #[expect(unused)] #[doc = \"p\"] y: i32) {} }"),
    ]
    .iter()
    .map(|(a, i)| (a.to_string(), i.to_string()))
    .chain(pa_cases.into_iter())
    {
        let (attr, item) = (attr.as_str(), item.as_str());
        let input = format!("#[entrait({})] {}", attr, item);
        r.guarded(&input, |r| {
            let out = expand(Variant::Entrait, attr, item);
            if let Some(e) = compile_error_of(&out) {
                r.fail("unexpected-error", &input, e);
                return;
            }
            let file = match parse_file(&out) {
                Ok(f) => f,
                Err(e) => {
                    r.fail("unparsable", &input, e);
                    return;
                }
            };
            let items: &Vec<syn::Item> = mod_items(&file.items, "m").unwrap_or(&file.items);
            let mut sigs: Vec<(String, &syn::Signature)> = vec![];
            for it in items {
                match it {
                    syn::Item::Trait(t) => sigs.extend(trait_methods(t).into_iter().map(|m| (format!("trait {}::{}", t.ident, m.sig.ident), &m.sig))),
                    syn::Item::Impl(i) if i.trait_.is_some() => sigs.extend(impl_methods(i).into_iter().map(|m| (format!("impl method {}", m.sig.ident), &m.sig))),
                    _ => {}
                }
            }
            if sigs.is_empty() {
                r.fail("shape", &input, "no generated signatures found".into());
            }
            for (what, sig) in sigs {
                for (i, a) in sig.inputs.iter().enumerate() {
                    let n = match a {
                        syn::FnArg::Typed(p) => p.attrs.len(),
                        syn::FnArg::Receiver(rc) => rc.attrs.len(),
                    };
                    if n != 0 {
                        r.fail("param-attributes", &input, format!("{}: input {} still carries an attribute: `{}`", what, i, tt_string(a)));
                    }
                }
            }
        });
    }
    // trait methods: attributes mirrored onto the delegating methods, in order
    for mattrs in ["", "#[cfg(all())]", "#[doc = \"m\"] #[cfg(feature = \"x\")]", "#[cfg(feature = \"x\")] #[doc = \"m\"] #[inline]"] {
      for tattr in ["", "TrImpl, delegate_by = DelegateTr", "TrImpl, delegate_by = ref", "delegate_by = ref"] {
        let item = format!("#[doc = \"t\"] trait Tr {{ {} fn f(&self, a: i32) -> i32; fn g(&self); }}", mattrs);
        let input = format!("#[entrait({})] {}", tattr, item);
        r.guarded(&input, |r| {
            let out = expand(Variant::Entrait, tattr, &item);
            if let Some(e) = compile_error_of(&out) {
                r.fail("unexpected-error", &input, e);
                return;
            }
            let file = match parse_file(&out) {
                Ok(f) => f,
                Err(e) => {
                    r.fail("unparsable", &input, e);
                    return;
                }
            };
            let want: Vec<String> = syn::parse::Parser::parse2(syn::Attribute::parse_outer, ts(mattrs)).unwrap().iter().map(|a| tt_string(a)).collect();
            let t = find_trait(&file.items, "Tr");
            let im = find_impls(&file.items, "Tr");
            if let (Some(t), Some(im)) = (t, im.first()) {
                let tm = trait_methods(t);
                let mm = impl_methods(im);
                if tm.len() != 2 || mm.len() != 2 {
                    r.fail("method-count", &input, format!("{} trait methods, {} impl methods", tm.len(), mm.len()));
                    return;
                }
                if attr_strings(&tm[0].attrs) != want {
                    r.fail("trait-method-attributes", &input, format!("trait method carries {:?}, written {:?}", attr_strings(&tm[0].attrs), want));
                }
                if attr_strings(&mm[0].attrs) != want {
                    r.fail("mirrored-attributes", &input, format!("delegating method carries {:?}, the trait method {:?}", attr_strings(&mm[0].attrs), want));
                }
                if !mm[1].attrs.is_empty() || !tm[1].attrs.is_empty() {
                    r.fail("attribute-leak", &input, "attributes of one method leaked onto another".into());
                }
                // the generated delegation-target trait restates the methods with the same attributes
                if tattr.starts_with("TrImpl") {
                    match find_trait(&file.items, "TrImpl") {
                        Some(target) => {
                            let xm = trait_methods(target);
                            if xm.len() != 2 || attr_strings(&xm[0].attrs) != want || !xm[1].attrs.is_empty() {
                                r.fail("target-trait-method-attributes", &input, format!("TrImpl::f carries {:?}, the trait method {:?}", xm.get(0).map(|m| attr_strings(&m.attrs)), want));
                            }
                        }
                        None => r.fail("shape", &input, "TrImpl missing".into()),
                    }
                }
            } else {
                r.fail("shape", &input, "trait or impl missing".into());
            }
        });
      }
    }
    // cfg-disabled functions of a module / impl block must not leave a dangling trait method behind
    for (attr, item, tname) in [
        ("Tr", "mod m { #[cfg(any())] pub fn f(deps: &impl Any) {} pub fn g(deps: &impl Any) {} }", "Tr"),
        ("", "impl TrImpl for X { #[cfg(any())] fn f<D>(deps: &D) {} fn g<D>(deps: &D) {} }", "TrImpl"),
    ] {
        let input = format!("#[entrait({})] {}", attr, item);
        r.guarded(&input, |r| {
            let out = expand(Variant::Entrait, attr, item);
            if let Some(e) = compile_error_of(&out) {
                r.fail("unexpected-error", &input, e);
                return;
            }
            let file = match parse_file(&out) {
                Ok(f) => f,
                Err(e) => {
                    r.fail("unparsable", &input, e);
                    return;
                }
            };
            let items: &Vec<syn::Item> = mod_items(&file.items, "m").unwrap_or(&file.items);
            let mut dangling = vec![];
            if let Some(t) = find_trait(items, tname) {
                for m in trait_methods(t) {
                    if m.sig.ident == "f" && !attr_strings(&m.attrs).iter().any(|a| a.contains("cfg")) {
                        dangling.push("trait method `f` is declared unconditionally".to_string());
                    }
                }
            }
            for im in find_impls(items, tname) {
                for m in impl_methods(im) {
                    if m.sig.ident == "f" && !attr_strings(&m.attrs).iter().any(|a| a.contains("cfg")) {
                        dangling.push("delegating method `f` is emitted unconditionally".to_string());
                    }
                }
            }
            if !dangling.is_empty() {
                r.fail("cfg-dangling-method", &input, dangling.join("; "));
            }
        });
    }
}

// ------------------------------------------------------------------------------------ C11

fn c11_unimock(ctx: &Ctx, r: &mut Report) {
    let max = if ctx.tier == Tier::Thorough { 3 } else { 2 };
    r.domain = "unimock-enabled fn / 2-fn mod / 0-fn mod / trait inputs; deps {&D, &impl Bar, &App (fn only), no_deps} x parameter lists over the C01 alphabet x {sync, async}; mixed modules (generic + no_deps is not expressible, so modules are homogeneous)".into();
    r.bound = format!("arity 0..{}", max);
    let squash = |s: &str| -> String { s.chars().filter(|c| !c.is_whitespace()).collect() };
    for mode in [Mode::Fn, Mode::Mod, Mode::Trait] {
        for deps in [Deps::RefGeneric, Deps::RefImpl, Deps::Concrete, Deps::NoDeps] {
            if mode != Mode::Fn && deps == Deps::Concrete {
                continue;
            }
            if mode == Mode::Trait && deps != Deps::RefGeneric {
                continue;
            }
            for n in 0..=max {
                for ps in sequences(PARAMS.len(), n) {
                    for is_async in [false, true] {
                        let mut opts: Vec<String> = vec!["unimock".into(), "mock_api = TrMock".into()];
                        if deps == Deps::NoDeps {
                            opts.push("no_deps".into());
                        }
                        let names: Vec<&str> = match mode {
                            Mode::Fn => vec!["f"],
                            _ => vec!["f", "g"],
                        };
                        let (attr, item) = match mode {
                            Mode::Fn => (attr_for(Mode::Fn, &opts), fn_source("f", "", is_async, deps, &ps, "-> i32")),
                            Mode::Mod => (attr_for(Mode::Fn, &opts), format!("mod m {{ {} }}", names.iter().map(|nm| fn_source(nm, "pub", is_async, deps, &ps, "-> i32")).collect::<Vec<_>>().join(" "))),
                            Mode::Trait => {
                                let plist: Vec<String> = ps.iter().enumerate().map(|(i, p)| format!("p{}: {}", i, PARAMS[*p].1)).collect();
                                let decl = |nm: &str| format!("{} fn {}(&self{}{}) -> i32;", if is_async { "async" } else { "" }, nm, if plist.is_empty() { "" } else { ", " }, plist.join(", "));
                                ("unimock, mock_api = TrMock".to_string(), format!("trait Tr {{ {} {} }}", decl("f"), decl("g")))
                            }
                        };
                        let input = format!("#[entrait({})] {}", attr, item);
                        r.guarded(&input, |r| {
                            let out = expand(Variant::Entrait, &attr, &item);
                            if let Some(e) = compile_error_of(&out) {
                                r.fail("unexpected-error", &input, e);
                                return;
                            }
                            let file = match parse_file(&out) {
                                Ok(f) => f,
                                Err(e) => {
                                    r.fail("unparsable", &input, e);
                                    return;
                                }
                            };
                            let tr = match super::c_opts::the_trait(mode, &file) {
                                Some(t) => t,
                                None => {
                                    r.fail("no-trait", &input, "trait not found".into());
                                    return;
                                }
                            };
                            // the unimock derivation: #[cfg_attr(test, ::entrait::__unimock::unimock(..))]
                            let mut found: Option<String> = None;
                            for a in &tr.attrs {
                                let s = squash(&tt_string(a));
                                if let Some(p) = s.find("::entrait::__unimock::unimock(") {
                                    found = Some(s[p..].to_string());
                                }
                            }
                            let got = match found {
                                Some(g) => g,
                                None => {
                                    r.fail("no-unimock-attribute", &input, "no `::entrait::__unimock::unimock(..)` derivation on the trait".into());
                                    return;
                                }
                            };
                            // expected parameters, from the property statement
                            let tms = trait_methods(&tr);
                            let mut entries: Vec<String> = vec![];
                            for (k, nm) in names.iter().enumerate() {
                                match deps {
                                    Deps::Concrete => entries.push("_".into()),
                                    Deps::NoDeps => {
                                        let ids: Vec<String> = tms.get(k).map(|m| typed_idents(&m.sig).into_iter().map(|o| o.unwrap_or_else(|| "?".into())).collect()).unwrap_or_default();
                                        entries.push(format!("{}({})", nm, ids.join(",")));
                                    }
                                    _ => entries.push(nm.to_string()),
                                }
                            }
                            let api = if mode == Mode::Fn { "api=[TrMock]" } else { "api=TrMock" };
                            let unmock = if mode == Mode::Trait { String::new() } else { format!(",unmock_with=[{}]", entries.join(",")) };
                            let want_core = format!("::entrait::__unimock::unimock(prefix=::entrait::__unimock,{}{})", api, unmock);
                            if !got.starts_with(&want_core) {
                                r.fail("unimock-parameters", &input, format!("derivation is `{}`, expected `{}`", got, want_core));
                            }
                        });
                    }
                }
            }
        }
    }
    // a module without visible functions has no unmock_with list
    {
        let item = "mod m { fn private(deps: &impl Any) {} }";
        let attr = "Tr, unimock, mock_api = TrMock";
        let input = format!("#[entrait({})] {}", attr, item);
        r.guarded(&input, |r| {
            let out = expand(Variant::Entrait, attr, item);
            let s: String = canon(&out).chars().filter(|c| !c.is_whitespace()).collect();
            if !s.contains("unimock(prefix=::entrait::__unimock,api=TrMock)") {
                r.fail("unimock-parameters-empty-module", &input, "expected `unimock(prefix = ::entrait::__unimock, api = TrMock)` without unmock_with".into());
            }
        });
    }
}
