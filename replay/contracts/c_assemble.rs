use super::*;
pub fn contracts() -> Vec<Contract> { vec![] }
