//! Cross-product contracts: one rich input grammar per input mode, a battery of oracles per
//! expansion. Where the per-property contracts enumerate one dimension exhaustively, these
//! combine many dimensions (qualifiers x generics x deps x parameters x return type x where
//! clause x options x attributes) and walk the product with a fixed stride, so that defects
//! which need two unrelated features to meet are exercised. Bounded and sampled: a stand-in,
//! never counted as proved. The walk is deterministic (stride derived from VERIF_SEED).
use super::c_assemble::{check_delegating_method, impl_methods, trait_methods};
use super::*;
use quote::ToTokens;

pub fn contracts() -> Vec<Contract> {
    vec![
        Contract { name: "cx_fn_grammar", function: "lib.rs::invoke -> entrait_fn::entrait_for_single_fn and everything below it", props: &["C01", "C02", "C03", "C04", "C05", "C10", "C11", "C12", "C13", "C15", "C16", "C17", "C18", "C19"], run: cx_fn },
        Contract { name: "cx_mod_grammar", function: "lib.rs::invoke -> entrait_fn::{entrait_for_mod, entrait_for_impl_block} and everything below them", props: &["C01", "C02", "C03", "C04", "C07", "C08", "C12", "C13", "C15", "C19"], run: cx_mod },
        Contract { name: "c07_borrow_from_deps", function: "signature/converter.rs::generate_params / gen_impl_receiver, entrait_trait/mod.rs::gen_impl_trait (delegation-target trait)", props: &["C07", "C03"], run: c07_borrow },
        Contract { name: "c03_module_generic_names", function: "analyze_generics.rs::GenericsAnalyzer (one analyzer shared by all functions of a module / impl block)", props: &["C03"], run: c03_generic_names },
        Contract { name: "cx_trait_grammar", function: "lib.rs::invoke -> entrait_trait::output_tokens and everything below it", props: &["C03", "C06", "C07", "C09", "C12", "C13", "C15", "C18", "C19"], run: cx_trait },
    ]
}

fn squash(s: &str) -> String {
    s.chars().filter(|c| !c.is_whitespace()).collect()
}

struct Dim<T: 'static>(&'static [T]);

/// mixed-radix decoding of a case number
fn pick(n: &mut u64, len: usize) -> usize {
    let k = (*n % len as u64) as usize;
    *n /= len as u64;
    k
}

fn seed() -> u64 {
    std::env::var("VERIF_SEED").ok().and_then(|s| s.parse::<u64>().ok()).unwrap_or(0)
}

fn cx_fn(ctx: &Ctx, r: &mut Report) {
    // ---- dimensions
    let vis = ["", "pub", "pub(crate)"];
    let quals: [(&str, bool, bool); 6] = [("", false, false), ("async", true, false), ("unsafe", false, true), ("async unsafe", true, true), ("const", false, false), ("extern \"C\"", false, false)];
    // (generic params, lifted to trait, lifetimes kept on the method)
    let generics: [(&str, &[&str], &[&str]); 7] = [
        ("", &[], &[]),
        ("T: Clone", &["T : Clone"], &[]),
        ("'a", &[], &["'a"]),
        ("'a, T", &["T"], &["'a"]),
        ("const N: usize", &["const N : usize"], &[]),
        ("T, const N: usize, U: Default", &["T", "const N : usize", "U : Default"], &[]),
        ("'a, 'b: 'a", &[], &["'a", "'b"]),
    ];
    // (name, needs generic D, param text, declared bounds, by value, concrete self type, no_deps)
    let deps: [(&str, bool, &str, &[&str], bool, Option<&str>, bool); 16] = [
        ("ref-impl-relaxed", false, "deps: &(impl A + ?Sized)", &["A"], false, None, false),
        ("ref-generic-hrtb", true, "deps: &D", &["A", "for < 'h > H < 'h >"], false, None, false),
        ("concrete-abs", false, "deps: &::abs::App", &[], false, Some(":: abs :: App"), false),
        ("concrete-tuple", false, "deps: &(A0, B0)", &[], false, Some("(A0 , B0)"), false),
        ("ref-impl-paren", false, "deps: (&impl A)", &["A"], false, None, false),
        ("ref-generic-paren", true, "deps: ((&D))", &["A"], false, None, false),
        ("ref-generic-where", true, "deps: &D", &["A", "B < u8 >"], false, None, false),
        ("ref-generic-where-only", true, "deps: &D", &["B < u8 >", "A"], false, None, false),
        ("ref-generic", true, "deps: &D", &[], false, None, false),
        ("ref-generic-bounded", true, "deps: &D", &["A", "B < u8 >"], false, None, false),
        ("val-generic", true, "deps: D", &["A"], true, None, false),
        ("ref-impl", false, "deps: &impl A", &["A"], false, None, false),
        ("ref-impl2", false, "deps: &(impl A + B<u8>)", &["A", "B < u8 >"], false, None, false),
        ("val-impl", false, "deps: impl A", &["A"], true, None, false),
        ("concrete", false, "deps: &my::App", &[], false, Some("my :: App"), false),
        ("no-deps", false, "", &[], false, None, true),
    ];
    let params: [&[(&str, &str)]; 21] = [
        &[("f", "u8"), ("(a, b)", "(u8, u8)")],
        &[("mut f", "u8"), ("_", "u8"), ("W(w)", "W")],
        &[("W(f)", "W"), ("_", "u8")],
        &[("(a, b)", "(u8, u8)"), ("W(f)", "W"), ("k", "u8")],
        &[("x", "impl Into<u8>")],
        &[("cb", "&dyn Fn(u8) -> u8"), ("s", "&mut String")],
        &[("v", "&[&str]"), ("(a, _)", "(u8, u8)"), ("r#type", "u8")],
        &[("_", "u8")],
        &[("W(w)", "W")],
        &[("mut f", "u8")],
        &[("W(f_)", "W"), ("f", "u8")],
        &[],
        &[("a", "i32")],
        &[("a", "i32"), ("b", "i32")],
        &[("mut m", "String"), ("_", "u8")],
        &[("(x, y)", "(i32, i32)"), ("W(w)", "W")],
        &[("f", "u8"), ("f_", "u8")],
        &[("W(w)", "W"), ("k", "u8")],
        &[("_", "u8"), ("a", "i32"), ("_", "i32")],
        &[("ref r", "u8"), ("W(f)", "W"), ("q @ 1..=9", "u8")],
        &[("arg0", "u8"), ("_", "u8"), ("self_", "u8")],
    ];
    let rets: [(&str, &str); 6] = [("", "()"), ("-> i32", "i32"), ("-> Result<u8, E>", "Result < u8 , E >"), ("-> &str", "& str"), ("-> impl Iterator<Item = u8>", "impl Iterator < Item = u8 >"), ("-> Option<Box<dyn Fn() + Send>>", "Option < Box < dyn Fn () + Send > >")];
    let wheres = ["", "T: Send", "T: Send, T: 'static", "T: Send + Sync"];
    // (option text, mock attr expected, mockable, ?Send, export)
    let opts: [(&str, u8, bool, bool, bool); 8] = [
        ("", 0, false, false, false),
        ("mockall", 2, true, false, false),
        ("unimock, mock_api = TrMock", 1, true, false, false),
        ("unimock, mock_api = TrMock, export", 1, true, false, true),
        ("?Send", 0, false, true, false),
        ("?Send, mockall = true, export = false", 2, true, true, false),
        ("unimock = false, mock_api = TrMock, mockall = false", 0, false, false, false), // switched off = absent: blanket impl
        ("export, mockall, ?Send", 2, true, true, true),
    ];
    let fattrs = ["", "#[inline]", "#[doc = \"d\"] #[async_trait::async_trait]"];
    let tvis = ["", "pub", "pub(crate)"];

    let total: u64 = (vis.len() * quals.len() * generics.len() * deps.len() * params.len() * rets.len() * wheres.len() * opts.len() * fattrs.len() * tvis.len()) as u64;
    let budget: u64 = if ctx.tier == Tier::Thorough { 400_000 } else { 12_000 };
    // a stride coprime to the product visits `budget` distinct, well spread cases
    let mut stride = total / budget.min(total).max(1);
    stride = stride.max(1) | 1;
    while gcd(stride, total) != 1 {
        stride += 2;
    }
    let start = seed() % total;
    r.domain = format!("fn inputs: vis {} x qualifiers {} x generics {} x deps {} x parameter lists {} x return {} x where {} x options {} x fn attributes {} x trait visibility {} = {} combinations", vis.len(), quals.len(), generics.len(), deps.len(), params.len(), rets.len(), wheres.len(), opts.len(), fattrs.len(), tvis.len(), total);
    r.bound = format!("{} combinations visited with stride {} from offset {} (deterministic in VERIF_SEED)", budget.min(total), stride, start);
    r.exhaustive = budget >= total;

    for step in 0..budget.min(total) {
        let mut n = (start + step * stride) % total;
        let v = vis[pick(&mut n, vis.len())];
        let (q, is_async, _is_unsafe) = quals[pick(&mut n, quals.len())];
        let (g, lifted, lifetimes) = generics[pick(&mut n, generics.len())];
        let (dname, needs_d, dparam, dbounds, by_value, concrete, no_deps) = deps[pick(&mut n, deps.len())];
        let ps = params[pick(&mut n, params.len())];
        let (ret, want_ret) = rets[pick(&mut n, rets.len())];
        let w = wheres[pick(&mut n, wheres.len())];
        let (opt, mock_kind, mockable, maybe_send, _export) = opts[pick(&mut n, opts.len())];
        let fa = fattrs[pick(&mut n, fattrs.len())];
        let tv = tvis[pick(&mut n, tvis.len())];
        if w.contains('T') && !g.contains('T') {
            continue;
        }
        if ret.contains("&str") && (no_deps || by_value) && ps.is_empty() {
            continue; // `-> &str` needs something to borrow from
        }
        if q.contains("const") && is_async {
            continue;
        }
        // ---- build the input
        let mut gl: Vec<String> = vec![];
        // lifetimes first (valid Rust), then D, then the rest
        for part in g.split(", ").filter(|p| p.starts_with('\'')) {
            gl.push(part.to_string());
        }
        let mut dep_where = String::new();
        if needs_d {
            let plain = |b: &[&str]| b.join(" + ").replace(" < ", "<").replace(" >", ">");
            if dname == "ref-generic-where" {
                gl.push(format!("D: {}", plain(&dbounds[..1])));
                dep_where = format!("D: {}", plain(&dbounds[1..]));
            } else if dname == "ref-generic-where-only" {
                gl.push("D".into());
                dep_where = format!("D: {}", plain(dbounds));
            } else {
                gl.push(if dbounds.is_empty() { "D".into() } else { format!("D: {}", plain(dbounds)) });
            }
        }
        for part in g.split(", ").filter(|p| !p.is_empty() && !p.starts_with('\'')) {
            gl.push(part.to_string());
        }
        let gtext = if gl.is_empty() { String::new() } else { format!("<{}>", gl.join(", ")) };
        let mut plist: Vec<String> = vec![];
        if !dparam.is_empty() {
            plist.push(dparam.to_string());
        }
        for (p, t) in ps {
            plist.push(format!("{}: {}", p, t));
        }
        let mut olist: Vec<String> = vec![];
        if no_deps {
            olist.push("no_deps".into());
        }
        if !opt.is_empty() {
            olist.push(opt.into());
        }
        let attr = format!("{} Tr{}{}", tv, if olist.is_empty() { "" } else { ", " }, olist.join(", "));
        // the deps predicate goes between the user's predicates when there are two of them
        let mut preds: Vec<&str> = w.split(", ").filter(|p| !p.is_empty()).collect();
        if !dep_where.is_empty() {
            let at = preds.len().min(1);
            preds.insert(at, &dep_where);
        }
        let user_preds: Vec<String> = w.split(", ").filter(|p| !p.is_empty()).map(|p| tt_string(&syn::parse_str::<syn::WherePredicate>(p).unwrap())).collect();
        let item = format!("{} {} {} fn f{}({}) {} {} {{ body!() }}", fa, v, q, gtext, plist.join(", "), ret, if preds.is_empty() { String::new() } else { format!("where {}", preds.join(", ")) });
        let input = format!("#[entrait({})] {}", attr.trim(), item);
        let has_at = fa.contains("async_trait");
        r.guarded(&input, |r| {
            let out = expand(Variant::Entrait, &attr, &item);
            if let Some(e) = compile_error_of(&out) {
                r.fail("unexpected-error", &input, e);
                return;
            }
            // C02: the function comes first, unchanged
            if let Some(k) = ts_prefix(&ts(&item), &out) {
                r.fail("fn-not-a-prefix", &input, format!("the expansion does not start with the function's own tokens (token {})", k));
            }
            let file = match parse_file(&out) {
                Ok(f) => f,
                Err(e) => {
                    r.fail("unparsable", &input, e);
                    return;
                }
            };
            let t = match find_trait(&file.items, "Tr") {
                Some(t) => t,
                None => {
                    r.fail("no-trait", &input, "trait not generated".into());
                    return;
                }
            };
            // C13
            let want_vis = tt_string(&syn::parse_str::<syn::Visibility>(tv).unwrap());
            if tt_string(&t.vis) != want_vis {
                r.fail("trait-visibility", &input, format!("trait is `{}`, requested `{}`", tt_string(&t.vis), want_vis));
            }
            // C03: trait generics = lifted parameters
            let tg: Vec<String> = t.generics.params.iter().map(|p| tt_string(p)).collect();
            if tg != lifted.iter().map(|s| s.to_string()).collect::<Vec<_>>() {
                r.fail("trait-generics", &input, format!("trait generics [{}], expected [{}]", tg.join(", "), lifted.join(", ")));
            }
            // C03: the user's where-predicates survive (on the trait or the method), the deps predicates do not
            let tw: Vec<String> = t.generics.where_clause.as_ref().map(|w| w.predicates.iter().map(|p| tt_string(p)).collect()).unwrap_or_default();
            for m in trait_methods(t) {
                let mw: Vec<String> = m.sig.generics.where_clause.as_ref().map(|w| w.predicates.iter().map(|p| tt_string(p)).collect()).unwrap_or_default();
                for p in &user_preds {
                    if !tw.contains(p) && !mw.contains(p) {
                        r.fail("predicate-dropped", &input, format!("where-predicate `{}` is on neither the trait nor its method", p));
                    }
                }
                for p in tw.iter().chain(mw.iter()) {
                    if !user_preds.contains(p) {
                        r.fail("predicate-added", &input, format!("where-predicate `{}` on the trait was not written by the user (or constrains the removed deps parameter)", p));
                    }
                }
            }
            // C18 / C10: attributes of the trait: mock derivation(s), nested entrait for concrete deps, re-applied async_trait
            let tattrs: Vec<String> = t.attrs.iter().map(|a| squash(&tt_string(a))).collect();
            let n_uni = tattrs.iter().filter(|a| a.contains("__unimock::unimock")).count();
            let n_mk = tattrs.iter().filter(|a| a.contains("mockall::automock")).count();
            if n_uni != (mock_kind == 1) as usize || n_mk != (mock_kind == 2) as usize {
                r.fail("mock-attributes", &input, format!("{} unimock / {} mockall derivations for options `{}`", n_uni, n_mk, opt));
            }
            let n_nested = tattrs.iter().filter(|a| a.contains("::entrait::entrait(unimock=false,mockall=false)")).count();
            if n_nested != concrete.is_some() as usize {
                r.fail("nested-attribute", &input, format!("{} nested entrait attributes, dependency is {}", n_nested, dname));
            }
            let n_at = tattrs.iter().filter(|a| a.contains("async_trait")).count();
            if n_at != has_at as usize {
                r.fail("async-trait-reapplied", &input, format!("{} async_trait attributes on the trait", n_at));
            }
            let known = n_uni + n_mk + n_nested + n_at;
            if tattrs.len() != known {
                r.fail("foreign-attribute-on-trait", &input, format!("trait carries {:?}", tattrs));
            }
            // the trait method
            let tm = trait_methods(t);
            if tm.len() != 1 || tm[0].sig.ident != "f" {
                r.fail("method-count", &input, format!("{} trait methods", tm.len()));
                return;
            }
            let msig = &tm[0].sig;
            let lts: Vec<String> = msig.generics.params.iter().map(|p| tt_string(p)).collect();
            let want_lts: Vec<String> = g.split(", ").filter(|p| p.starts_with('\'')).map(|s| tt_string(&syn::parse_str::<syn::GenericParam>(s).unwrap())).collect();
            let _ = lifetimes;
            if lts != want_lts {
                r.fail("method-generics", &input, format!("method generics [{}], expected the lifetimes [{}]", lts.join(", "), want_lts.join(", ")));
            }
            let tys: Vec<String> = msig.inputs.iter().filter_map(|a| if let syn::FnArg::Typed(p) = a { Some(tt_string(p.ty.as_ref())) } else { None }).collect();
            let want_tys: Vec<String> = ps.iter().map(|(_, t)| tt_string(&syn::parse_str::<syn::Type>(t).unwrap())).collect();
            if tys != want_tys {
                r.fail("parameter-types", &input, format!("method parameter types {:?}, the function's {:?}", tys, want_tys));
            }
            // C16: parameter names are plain, distinct identifiers, none of them the function's own name; a plain
            // identifier that does not collide keeps its name
            let names: Vec<String> = msig.inputs.iter().filter_map(|a| if let syn::FnArg::Typed(p) = a { Some(tt_string(p.pat.as_ref())) } else { None }).collect();
            for (k, nm) in names.iter().enumerate() {
                if syn::parse_str::<syn::Ident>(nm).is_err() {
                    r.fail("pattern-left", &input, format!("trait method parameter {} is `{}`, not a plain identifier", k, nm));
                }
                if nm == "f" || names[..k].contains(nm) {
                    r.fail("name-clash", &input, format!("trait method parameter {} is named `{}` (names: {:?})", k, nm, names));
                }
                if let Some((orig, _)) = ps.get(k) {
                    let plain = orig.trim_start_matches("mut ").trim_start_matches("ref ").split(" @").next().unwrap_or("");
                    if syn::parse_str::<syn::Ident>(plain).is_ok() && plain != "f" && plain != "_" && nm != plain {
                        r.fail("renamed", &input, format!("parameter `{}` became `{}`", orig, nm));
                    }
                }
            }
            match msig.inputs.first() {
                Some(syn::FnArg::Receiver(rc)) => {
                    if rc.reference.is_some() == by_value || rc.mutability.is_some() {
                        r.fail("receiver", &input, format!("receiver `{}` for dependency {}", tt_string(rc), dname));
                    }
                }
                _ => r.fail("receiver", &input, "no receiver".into()),
            }
            // C12
            let rt = match &msig.output {
                syn::ReturnType::Type(_, t) => tt_string(t.as_ref()),
                _ => "()".into(),
            };
            if is_async && !has_at {
                let want = format!("impl :: core :: future :: Future < Output = {} >{}", want_ret, if maybe_send { "" } else { " + :: core :: marker :: Send" });
                if msig.asyncness.is_some() || rt != want {
                    r.fail("async-signature", &input, format!("trait method returns `{}` (async: {}), expected `{}`", rt, msig.asyncness.is_some(), want));
                }
            } else if rt != want_ret || msig.asyncness.is_some() != is_async {
                r.fail("return-type", &input, format!("trait method returns `{}`, the function `{}`", rt, want_ret));
            }
            // (`const` is not demanded either way: trait methods cannot be const, and no property puts `const fn` in the supported class)
            if msig.unsafety.is_some() != q.contains("unsafe") || msig.abi.is_some() != q.contains("extern") {
                r.fail("qualifiers", &input, format!("method signature `{}` does not carry the function's qualifiers `{}`", tt_string(msig), q));
            }
            // the impl
            let ims = find_impls(&file.items, "Tr");
            if ims.len() != 1 {
                r.fail("impl-count", &input, format!("{} impls", ims.len()));
                return;
            }
            let im = ims[0];
            let self_ty = tt_string(&im.self_ty);
            let want_self = match concrete {
                Some(c) => c.to_string(),
                None => if mockable { ":: entrait :: Impl < EntraitT >".to_string() } else { "EntraitT".to_string() },
            };
            if self_ty != want_self {
                r.fail("self-type", &input, format!("implemented for `{}`, expected `{}`", self_ty, want_self));
            }
            let first = im.generics.params.first().map(|p| tt_string(p)).unwrap_or_default();
            if concrete.is_none() {
                let want_first = format!("EntraitT : :: core :: marker :: Sync{} + 'static", if by_value { " + :: core :: marker :: Send" } else { "" });
                if first != want_first {
                    r.fail("thread-safety-bounds", &input, format!("`{}`, expected `{}`", first, want_first));
                }
            } else if first.starts_with("EntraitT") {
                r.fail("blanket-generic", &input, "concrete impl is generic over EntraitT".into());
            }
            let mut self_bounds: Vec<String> = vec![];
            if let Some(wc) = &im.generics.where_clause {
                for p in &wc.predicates {
                    if let syn::WherePredicate::Type(pt) = p {
                        if tt_string(&pt.bounded_ty) == "Self" {
                            self_bounds.extend(pt.bounds.iter().map(|b| tt_string(b)));
                        }
                    }
                }
            }
            if self_bounds.iter().cloned().collect::<std::collections::BTreeSet<String>>() != dbounds.iter().map(|s| s.to_string()).collect::<std::collections::BTreeSet<String>>() {
                r.fail("bounds-mismatch", &input, format!("declared bounds [{}] but the impl requires Self: [{}]", dbounds.join(", "), self_bounds.join(", ")));
            }
            let mut other: Vec<String> = im.generics.where_clause.as_ref().map(|w| w.predicates.iter().map(|p| tt_string(p)).filter(|p| !p.starts_with("Self :")).collect()).unwrap_or_default();
            for m in impl_methods(im) {
                other.extend(m.sig.generics.where_clause.as_ref().map(|w| w.predicates.iter().map(|p| tt_string(p)).collect::<Vec<_>>()).unwrap_or_default());
            }
            // (the same predicate may be repeated on the impl and on its method; that is harmless)
            if other.iter().any(|p| !user_preds.contains(p)) || user_preds.iter().any(|p| !other.contains(p)) {
                r.fail("impl-where", &input, format!("impl and its method carry the predicates {:?} besides the Self bounds, the user wrote {:?}", other, user_preds));
            }
            let iattrs = im.attrs.iter().filter(|a| !tt_string(*a).contains("async_trait")).count();
            if iattrs != 0 || (im.attrs.len() - iattrs) != has_at as usize {
                r.fail("impl-attributes", &input, format!("impl carries {:?}", im.attrs.iter().map(|a| tt_string(a)).collect::<Vec<_>>()));
            }
            let ms = impl_methods(im);
            if ms.len() == 1 {
                check_delegating_method(r, &input, ms[0], "f", !no_deps, is_async, ps.len(), false);
            } else {
                r.fail("method-count", &input, format!("{} impl methods", ms.len()));
            }
            // C11: unmock entry
            if mock_kind == 1 {
                let a = tattrs.iter().find(|a| a.contains("__unimock::unimock")).cloned().unwrap_or_default();
                let ids: Vec<String> = ms.get(0).map(|m| m.sig.inputs.iter().filter_map(|x| if let syn::FnArg::Typed(p) = x { Some(tt_string(p.pat.as_ref())) } else { None }).collect()).unwrap_or_default();
                let entry = if concrete.is_some() { "_".to_string() } else if no_deps { format!("f({})", ids.join(",")) } else { "f".to_string() };
                let want = format!("unimock(prefix=::entrait::__unimock,api=[TrMock],unmock_with=[{}])", entry);
                if !a.contains(&want) {
                    r.fail("unimock-parameters", &input, format!("`{}` does not contain `{}`", a, want));
                }
            }
        });
    }
}

fn gcd(a: u64, b: u64) -> u64 {
    if b == 0 { a } else { gcd(b, a % b) }
}

fn cx_trait(ctx: &Ctx, r: &mut Report) {
    let vis = ["", "pub", "pub(crate)", "pub(super)", "pub(in super::a)"];
    let tattrs = ["", "#[doc = \"t\"]", "#[async_trait]", "#[doc = \"t\"] #[allow(dead_code)] #[async_trait::async_trait]"];
    let generics: [(&str, &str); 4] = [("", "Tr"), ("<T>", "Tr<T>"), ("<'x, T: 'x>", "Tr<'x,T>"), ("<const N: usize, U>", "Tr<N,U>")];
    let supers = ["", ": Sized", ": Send + Sync"];
    let wheres = ["", "where Self: 'static"];
    // method lists: (decl, name, arg names, async, receiver text)
    let methods: [&[(&str, &str, &[&str], bool)]; 9] = [
        &[("fn f<V: Into<u8>>(&self, v: V, w: impl Into<u8>) -> u8;", "f", &["v", "w"], false)],
        &[("#[cfg(all())] async fn a(&self, s: &mut String);", "a", &["s"], true), ("fn b(&self, cb: &dyn Fn(u8) -> u8) -> u8;", "b", &["cb"], false)],
        &[("unsafe fn u(&self, p: *const u8) -> u8;", "u", &["p"], false), ("extern \"C\" fn e(&self);", "e", &[], false), ("fn r#type(&self, r#fn: u8);", "r#type", &["r#fn"], false)],
        &[("fn f<'x>(&'x self, s: &'x str) -> &'x str;", "f", &["s"], false), ("async fn g<'y>(&'y self) -> &'y str;", "g", &[], true)],
        &[("fn f(&self);", "f", &[], false)],
        &[("fn f(&self, a: i32, b: i32) -> i32;", "f", &["a", "b"], false), ("fn g(&self, a: i32, b: i32) -> i32;", "g", &["a", "b"], false)],
        &[("async fn f(&self, a: String) -> usize;", "f", &["a"], true), ("#[cfg(all())] fn g(&self, x: u8);", "g", &["x"], false)],
        &[("#[doc = \"m\"] #[cfg(feature = \"x\")] async fn f<V>(&self, v: V) -> V where V: Send;", "f", &["v"], true)],
        &[("fn f(&self) -> &str;", "f", &[], false), ("fn m(&mut self, k: u8);", "m", &["k"], false), ("async fn h(&self);", "h", &[], true)],
    ];
    // (attribute, kind: 0 self, 1 asref, 2 borrow, 3 static target, 4 dyn target asref, 5 dyn target borrow)
    let sels: [(&str, u8); 9] = [("", 0), ("delegate_by = Self", 0), ("delegate_by = ref", 1), ("delegate_by = Borrow", 2), ("TrImpl, delegate_by = DelegateTr", 3), ("TrImpl, delegate_by = ref", 4), ("pub TrImpl, delegate_by = Borrow", 5), ("mockall, delegate_by = ref", 1), ("unimock, mock_api = TrMock", 0)];
    let sends = ["", "?Send"];
    let total = (vis.len() * tattrs.len() * generics.len() * supers.len() * wheres.len() * methods.len() * sels.len() * sends.len()) as u64;
    let budget: u64 = if ctx.tier == Tier::Thorough { total } else { 4000 };
    let mut stride = (total / budget.min(total).max(1)).max(1) | 1;
    while gcd(stride, total) != 1 {
        stride += 2;
    }
    let start = seed() % total;
    r.domain = format!("trait inputs: vis {} x trait attributes {} x generics {} x supertraits {} x where {} x method lists {} x delegation / mock options {} x ?Send {} = {} combinations", vis.len(), tattrs.len(), generics.len(), supers.len(), wheres.len(), methods.len(), sels.len(), sends.len(), total);
    r.bound = format!("{} combinations visited with stride {} from offset {}", budget.min(total), stride, start);
    r.exhaustive = budget >= total;
    for step in 0..budget.min(total) {
        let mut n = (start + step * stride) % total;
        let v = vis[pick(&mut n, vis.len())];
        let ta = tattrs[pick(&mut n, tattrs.len())];
        let (g, args) = generics[pick(&mut n, generics.len())];
        let sup = supers[pick(&mut n, supers.len())];
        let w = wheres[pick(&mut n, wheres.len())];
        let ml = methods[pick(&mut n, methods.len())];
        let (sel, kind) = sels[pick(&mut n, sels.len())];
        let send = sends[pick(&mut n, sends.len())];
        let has_at = ta.contains("async_trait");
        let any_async = ml.iter().any(|m| m.3);
        let attr = if send.is_empty() { sel.to_string() } else if sel.is_empty() { send.to_string() } else { format!("{}, {}", sel, send) };
        let decls: Vec<&str> = ml.iter().map(|m| m.0).collect();
        let item = format!("{} {} trait Tr{} {} {} {{ {} }}", ta, v, g, sup, w, decls.join(" "));
        let input = format!("#[entrait({})] {}", attr, item);
        r.guarded(&input, |r| {
            let out = expand(Variant::Entrait, &attr, &item);
            if let Some(e) = compile_error_of(&out) {
                r.fail("unexpected-error", &input, e);
                return;
            }
            let file = match parse_file(&out) {
                Ok(f) => f,
                Err(e) => {
                    r.fail("unparsable", &input, e);
                    return;
                }
            };
            let orig: syn::ItemTrait = syn::parse_str(&item).unwrap();
            let t = match find_trait(&file.items, "Tr") {
                Some(t) => t,
                None => {
                    r.fail("no-trait", &input, "trait Tr missing".into());
                    return;
                }
            };
            // C09
            if tt_string(&t.vis) != tt_string(&orig.vis) {
                r.fail("visibility", &input, format!("`{}` became `{}`", tt_string(&orig.vis), tt_string(&t.vis)));
            }
            if tt_string(&t.generics.params) != tt_string(&orig.generics.params) || tt_string(&t.generics.where_clause) != tt_string(&orig.generics.where_clause) || tt_string(&t.supertraits) != tt_string(&orig.supertraits) {
                r.fail("trait-header", &input, "generics, where clause or supertraits of the trait changed".into());
            }
            let user: Vec<String> = orig.attrs.iter().map(|a| tt_string(a)).collect();
            let got: Vec<String> = t.attrs.iter().map(|a| tt_string(a)).filter(|s| !(s.contains("unimock") || s.contains("automock"))).collect();
            if got != user {
                r.fail("trait-attributes", &input, format!("trait attributes {:?}, written {:?}", got, user));
            }
            let om = trait_methods(&orig);
            let tm = trait_methods(t);
            if om.len() != tm.len() {
                r.fail("method-count", &input, format!("{} methods became {}", om.len(), tm.len()));
                return;
            }
            for (a, b) in om.iter().zip(tm.iter()) {
                if a.attrs.iter().map(|x| tt_string(x)).collect::<Vec<_>>() != b.attrs.iter().map(|x| tt_string(x)).collect::<Vec<_>>() {
                    r.fail("method-attributes", &input, format!("attributes of `{}` changed", a.sig.ident));
                }
                let strip = |s: &syn::Signature| {
                    let mut s = s.clone();
                    s.asyncness = None;
                    s.output = syn::ReturnType::Default;
                    format!("{} {}", tt_string(&s), tt_string(&s.generics.where_clause))
                };
                if strip(&a.sig) != strip(&b.sig) {
                    r.fail("method-signature", &input, format!("`{}` became `{}`", strip(&a.sig), strip(&b.sig)));
                }
                if a.sig.asyncness.is_some() && !has_at {
                    let out_ty = match &a.sig.output {
                        syn::ReturnType::Type(_, t) => tt_string(t.as_ref()),
                        _ => "()".into(),
                    };
                    let want = format!("impl :: core :: future :: Future < Output = {} >{}", out_ty, if send.is_empty() { " + :: core :: marker :: Send" } else { "" });
                    let got = match &b.sig.output {
                        syn::ReturnType::Type(_, t) => tt_string(t.as_ref()),
                        _ => String::new(),
                    };
                    if b.sig.asyncness.is_some() || got != want {
                        r.fail("async-signature", &input, format!("`{}` returns `{}`, expected `{}`", a.sig.ident, got, want));
                    }
                } else if tt_string(&a.sig) != tt_string(&b.sig) {
                    r.fail("method-signature", &input, format!("`{}` became `{}`", tt_string(&a.sig), tt_string(&b.sig)));
                }
            }
            // C06 / C07: the Impl<T> implementation
            let ims = find_impls(&file.items, "Tr");
            if ims.len() != 1 {
                r.fail("impl-count", &input, format!("{} impls of Tr", ims.len()));
                return;
            }
            let im = ims[0];
            if squash(&tt_string(&im.self_ty)) != "::entrait::Impl<EntraitT>" {
                r.fail("self-type", &input, format!("implemented for `{}`", tt_string(&im.self_ty)));
            }
            let implemented = squash(&im.trait_.as_ref().map(|t| tt_string(&t.1)).unwrap_or_default());
            if implemented != squash(args) {
                r.fail("trait-arguments", &input, format!("the impl is for `{}`, the trait is `{}`", implemented, squash(args)));
            }
            // fixed header: `EntraitT : ::core::marker::Sync + 'static` somewhere among the impl generics (lifetimes may precede)
            let et: Vec<String> = im.generics.params.iter().filter_map(|p| if let syn::GenericParam::Type(tp) = p { if tp.ident == "EntraitT" { Some(tp.bounds.iter().map(|b| squash(&tt_string(b))).collect::<Vec<_>>().join("+")) } else { None } } else { None }).collect();
            if et != vec!["::core::marker::Sync+'static".to_string()] {
                r.fail("fixed-bounds", &input, format!("EntraitT declared with {:?}", et));
            }
            let mut bounds: Vec<String> = vec![];
            if let Some(wc) = &im.generics.where_clause {
                for p in &wc.predicates {
                    if let syn::WherePredicate::Type(pt) = p {
                        if tt_string(&pt.bounded_ty) == "EntraitT" {
                            bounds.extend(pt.bounds.iter().map(|b| squash(&tt_string(b))));
                        }
                    }
                }
            }
            let a = any_async;
            let psync = if a { "+::core::marker::Sync" } else { "" };
            let want_first = match kind {
                0 => squash(args),
                1 => format!("::core::convert::AsRef<dyn{}>", squash(args)),
                2 => format!("::core::borrow::Borrow<dyn{}>", squash(args)),
                3 => "DelegateTr<EntraitT>".to_string(),
                4 => format!("::core::convert::AsRef<dynTrImpl<EntraitT>{}>", psync),
                _ => format!("::core::borrow::Borrow<dynTrImpl<EntraitT>{}>", psync),
            };
            if bounds.first() != Some(&want_first) {
                r.fail("provider-bound", &input, format!("EntraitT is bounded by {:?}, expected first `{}`", bounds, want_first));
            }
            let mut want_rest: Vec<&str> = vec![];
            match kind {
                0 => {
                    want_rest.push("::core::marker::Sync");
                    if a {
                        want_rest.push("'static");
                    }
                }
                3 => {
                    want_rest.push("::core::marker::Sync");
                    want_rest.push("'static");
                }
                _ => {
                    // no `Send`: the forwarded call only holds a shared reference to T
                    if a {
                        want_rest.push("::core::marker::Sync");
                    }
                    want_rest.push("'static");
                }
            }
            if bounds.iter().skip(1).map(|s| s.as_str()).collect::<Vec<_>>() != want_rest {
                r.fail("provider-extra-bounds", &input, format!("EntraitT: {:?}, expected `{}` followed by {:?}", bounds, want_first, want_rest));
            }
            let iat = im.attrs.iter().filter(|x| tt_string(*x).contains("async_trait")).count();
            if iat != has_at as usize || im.attrs.len() != iat {
                r.fail("impl-attributes", &input, format!("impl carries {:?}", im.attrs.iter().map(|a| tt_string(a)).collect::<Vec<_>>()));
            }
            let mm = impl_methods(im);
            if mm.len() != ml.len() {
                r.fail("method-count", &input, format!("{} delegating methods for {} trait methods", mm.len(), ml.len()));
                return;
            }
            for (k, (_decl, name, margs, is_async)) in ml.iter().enumerate() {
                let body = squash(&tt_string(&mm[k].block)).replace(",)", ")");
                let aw = if *is_async { ".await" } else { "" };
                let mut with_self = vec!["self".to_string()];
                with_self.extend(margs.iter().map(|s| s.to_string()));
                let want = match kind {
                    0 => format!("{{self.as_ref().{}({}){}}}", name, margs.join(","), aw),
                    1 => format!("{{self.as_ref().as_ref().{}({}){}}}", name, margs.join(","), aw),
                    2 => format!("{{self.as_ref().borrow().{}({}){}}}", name, margs.join(","), aw),
                    3 => format!("{{<EntraitT::TargetasTrImpl<EntraitT>>::{}({}){}}}", name, with_self.join(","), aw),
                    4 => format!("{{<EntraitTas::core::convert::AsRef<dynTrImpl<EntraitT>{}>>::as_ref(&*self).{}({}){}}}", psync, name, with_self.join(","), aw),
                    _ => format!("{{<EntraitTas::core::borrow::Borrow<dynTrImpl<EntraitT>{}>>::borrow(&*self).{}({}){}}}", psync, name, with_self.join(","), aw),
                };
                if body != want {
                    r.fail("forwarding-call", &input, format!("`{}` body is `{}`, expected `{}`", name, body, want));
                }
                // C18: attributes mirrored
                let wa: Vec<String> = om[k].attrs.iter().map(|x| tt_string(x)).collect();
                let ga: Vec<String> = mm[k].attrs.iter().map(|x| tt_string(x)).collect();
                if wa != ga {
                    r.fail("mirrored-attributes", &input, format!("delegating `{}` carries {:?}, the trait method {:?}", name, ga, wa));
                }
            }
            // C07 / C13: the delegation-target trait
            if kind >= 3 {
                match find_trait(&file.items, "TrImpl") {
                    Some(x) => {
                        if tt_string(&x.vis) != tt_string(&orig.vis) {
                            r.fail("target-trait-visibility", &input, format!("TrImpl is `{}`, Tr is `{}`", tt_string(&x.vis), tt_string(&orig.vis)));
                        }
                        let xm = trait_methods(x);
                        if xm.len() != ml.len() {
                            r.fail("target-method-count", &input, format!("{} methods in TrImpl", xm.len()));
                        } else {
                            for (k, m) in xm.iter().enumerate() {
                                let wa: Vec<String> = om[k].attrs.iter().map(|x| tt_string(x)).collect();
                                let ga: Vec<String> = m.attrs.iter().map(|x| tt_string(x)).collect();
                                if wa != ga {
                                    r.fail("target-trait-method-attributes", &input, format!("TrImpl::{} carries {:?}, the trait method {:?}", m.sig.ident, ga, wa));
                                }
                                let ins: Vec<String> = m.sig.inputs.iter().map(|a| squash(&tt_string(a))).collect();
                                // `__impl` carries the lifetime the receiver was written with
                                let rl = match om[k].sig.inputs.first() {
                                    Some(syn::FnArg::Receiver(rc)) => rc.lifetime().map(|l| l.to_string()).unwrap_or_default(),
                                    _ => String::new(),
                                };
                                let ip = format!("__impl:&{}::entrait::Impl<EntraitT>", rl);
                                let ok = if kind == 3 { ins.first() == Some(&ip) } else { ins.get(1) == Some(&ip) && (ins[0] == format!("&{}self", rl) || ins[0] == format!("&{}mutself", rl)) };
                                if !ok {
                                    r.fail("target-receiver", &input, format!("TrImpl::{} inputs {:?}", m.sig.ident, ins));
                                }
                                if m.sig.asyncness.is_some() != (om[k].sig.asyncness.is_some() && has_at) {
                                    r.fail("target-async", &input, format!("TrImpl::{} asyncness", m.sig.ident));
                                } else if om[k].sig.asyncness.is_some() && !has_at {
                                    let got = match &m.sig.output {
                                        syn::ReturnType::Type(_, t) => tt_string(t.as_ref()),
                                        _ => String::new(),
                                    };
                                    if got.contains("marker :: Send") != send.is_empty() {
                                        r.fail("target-send-bound", &input, format!("TrImpl::{} returns `{}` with options `{}`", m.sig.ident, got, attr));
                                    }
                                }
                            }
                        }
                    }
                    None => r.fail("no-target-trait", &input, "TrImpl not generated".into()),
                }
            }
        });
    }
}

/// one member of a module / impl block body, instantiated at position `n`
struct Member {
    text: String,
    /// Some(..) if the member is a function the trait must expose
    method: Option<MemberFn>,
}
struct MemberFn {
    name: String,
    bounds: Vec<String>,
    by_value: bool,
    is_async: bool,
    n_params: usize,
    lifted: Vec<String>,
    /// the named lifetime of the deps reference, if any
    deps_lt: &'static str,
}

fn member(kind: usize, n: usize, in_impl: bool) -> Member {
    let v = if in_impl { "" } else { "pub " };
    let mk = |text: String, bounds: &[String], by_value: bool, is_async: bool, n_params: usize, lifted: &[String]| Member {
        text,
        method: Some(MemberFn { name: format!("f{}", n), bounds: bounds.to_vec(), by_value, is_async, n_params, lifted: lifted.to_vec(), deps_lt: if kind == 13 { "'x" } else { "" } }),
    };
    let a = format!("A{}", n);
    match kind {
        0 => mk(format!("{}fn f{}(deps: &impl {}, x: u8) -> u8 {{ x }}", v, n, a), &[a.clone()], false, false, 1, &[]),
        1 => mk(format!("{}fn f{}<D: {} + B<u8>>(deps: &D) {{}}", v, n, a), &[a.clone(), "B < u8 >".into()], false, false, 0, &[]),
        2 => mk(format!("{}async fn f{}<D>(deps: &D, W(w): W) where D: {} {{}}", v, n, a), &[a.clone()], false, true, 1, &[]),
        3 => mk(format!("{}fn f{}(deps: impl {}) {{}}", v, n, a), &[a.clone()], true, false, 0, &[]),
        4 => mk(format!("{}fn f{}<T{}: Clone>(deps: &impl C, t: T{}) where T{}: Send {{}}", if in_impl { "" } else { "pub(crate) " }, n, n, n, n), &["C".into()], false, false, 1, &[format!("T{} : Clone", n)]),
        5 => mk(format!("{}fn f{}<D>(deps: &D) {{}}", v, n), &[], false, false, 0, &[]),
        6 => mk(format!("{}unsafe fn f{}(deps: &(impl {} + Sq), _: u8, mut m: u8) {{}}", if in_impl { "" } else { "pub(super) " }, n, a), &[a.clone(), "Sq".into()], false, false, 2, &[]),
        7 => mk(format!("{}async fn f{}(deps: &impl {}, a: u8, b: u8) -> u8 {{ a }}", v, n, a), &[a.clone()], false, true, 2, &[]),
        12 => mk(format!("{}fn f{}<D: {}>(deps: &D, k: u8) where D: B<u8> {{}}", v, n, a), &[a.clone(), "B < u8 >".into()], false, false, 1, &[]),
        13 => mk(format!("{}async fn f{}<'x, D>(deps: &'x D, s: &'x str) -> &'x str where D: {} + Sq, D: B<u8> {{ s }}", v, n, a), &[a.clone(), "Sq".into(), "B < u8 >".into()], false, true, 1, &[]),
        14 => mk(format!("{}async unsafe fn f{}(deps: &impl {}, p: *const u8) -> u8 {{ *p }}", v, n, a), &[a.clone()], false, true, 1, &[]),
        15 => mk(format!("{}const unsafe extern \"C\" fn f{}(deps: &impl {}) {{}}", v, n, a), &[a.clone()], false, false, 0, &[]),
        16 => mk(format!("{}fn f{}(deps: &(impl B<u8> + B<u16> + other::B<u8>), x: u8) {{}}", v, n), &["B < u8 >".into(), "B < u16 >".into(), "other :: B < u8 >".into()], false, false, 1, &[]),
        // not part of the trait
        8 => Member { text: format!("fn hidden{}(deps: &impl Hidden) {{}}", n), method: None },
        9 => Member { text: format!("struct S{};", n), method: None },
        10 => Member { text: format!("use a::b{};", n), method: None },
        _ => Member { text: format!("const K{}: fn() = || {{}};", n), method: None },
    }
}

fn cx_mod(ctx: &Ctx, r: &mut Report) {
    let max = if ctx.tier == Tier::Thorough { 4 } else { 3 };
    // (attribute for a module, attribute for an impl block, mockable, ?Send)
    let opts: [(&str, bool, bool); 4] = [("", false, false), ("mockall", true, false), ("?Send", false, true), ("unimock, mock_api = TrMock, ?Send", true, true)];
    r.domain = "module and impl-block bodies: sequences of members from 17 kinds (13 function shapes differing in dependency form, bounds, by-value / async / unsafe, generics and patterns; 4 non-function kinds) x {mod, impl block, impl block with ref, with dyn} x 4 option sets x 3 trait visibilities".into();
    r.bound = format!("all sequences of length 1..{} (impl blocks: function kinds other than by-value only); every third (mode, options, visibility) combination per body, rotating", max);
    r.exhaustive = false;
    let mut bodies: Vec<Vec<usize>> = vec![];
    for n in 1..=max {
        bodies.extend(sequences(17, n));
    }
    let mut rot = seed() as usize;
    for body in bodies {
        for mode in 0..4usize {
            for (oi, (opt, mockable, maybe_send)) in opts.iter().enumerate() {
                for (vi, tv) in ["", "pub", "pub(crate)"].iter().enumerate() {
                    rot += 1;
                    if body.len() >= 2 && (rot + mode + oi + vi) % 3 != 0 {
                        continue;
                    }
                    let in_impl = mode > 0;
                    if in_impl && (body.iter().any(|k| *k == 3 || (8..12).contains(k)) || *mockable) {
                        continue; // impl blocks hold functions only; by-value deps and mock options do not apply
                    }
                    let ms: Vec<Member> = body.iter().enumerate().map(|(n, k)| member(*k, n, in_impl)).collect();
                    let fns: Vec<&MemberFn> = ms.iter().filter_map(|m| m.method.as_ref()).collect();
                    let text = ms.iter().map(|m| m.text.as_str()).collect::<Vec<_>>().join(" ");
                    let (attr, item) = if in_impl {
                        let sel = ["", "ref", "dyn"][mode - 1];
                        let mut parts: Vec<&str> = vec![];
                        if !tv.is_empty() {
                            continue; // no visibility on impl blocks
                        }
                        if !sel.is_empty() {
                            parts.push(sel);
                        }
                        if !opt.is_empty() {
                            parts.push(opt);
                        }
                        (parts.join(", "), format!("impl TrImpl for X {{ {} }}", text))
                    } else {
                        (format!("{} Tr{}{}", tv, if opt.is_empty() { "" } else { ", " }, opt).trim().to_string(), format!("#[cfg(all())] pub(crate) mod m {{ {} }}", text))
                    };
                    let input = format!("#[entrait({})] {}", attr, item);
                    r.guarded(&input, |r| {
                        let out = expand(Variant::Entrait, &attr, &item);
                        if let Some(e) = compile_error_of(&out) {
                            if in_impl && *maybe_send {
                                return; // `?Send` is not an impl-block option; a diagnostic is fine
                            }
                            r.fail("unexpected-error", &input, e);
                            return;
                        }
                        let file = match parse_file(&out) {
                            Ok(f) => f,
                            Err(e) => {
                                r.fail("unparsable", &input, e);
                                return;
                            }
                        };
                        let want_bounds: Vec<String> = fns.iter().flat_map(|f| f.bounds.iter().cloned()).collect();
                        let want_lifted: Vec<String> = fns.iter().flat_map(|f| f.lifted.iter().cloned()).collect();
                        if !in_impl {
                            // C02: the module comes first with its own items first, in order
                            let orig: syn::ItemMod = syn::parse_str(&item).unwrap();
                            let got = match file.items.first() {
                                Some(syn::Item::Mod(m)) => m,
                                _ => {
                                    r.fail("module-not-first", &input, "the expansion does not start with the module".into());
                                    return;
                                }
                            };
                            if tt_string(&got.vis) != tt_string(&orig.vis) || got.attrs.len() != orig.attrs.len() || got.ident != orig.ident {
                                r.fail("module-header", &input, "module attributes, visibility or name changed".into());
                            }
                            let (oi_, gi) = (&orig.content.as_ref().unwrap().1, &got.content.as_ref().unwrap().1);
                            for (k, it) in oi_.iter().enumerate() {
                                if gi.get(k).map(|g| tt_string(g)) != Some(tt_string(it)) {
                                    r.fail("module-items", &input, format!("item {} of the module changed or moved", k));
                                }
                            }
                            let t = match find_trait(gi, "Tr") {
                                Some(t) => t,
                                None => {
                                    r.fail("no-trait", &input, "trait not generated inside the module".into());
                                    return;
                                }
                            };
                            // C13: `pub(crate)`-or-wider trait inside the module + re-export with the requested visibility
                            let reexp: Vec<String> = file.items.iter().filter_map(|i| if let syn::Item::Use(u) = i { Some(squash(&tt_string(u))) } else { None }).collect();
                            let want_use = format!("{}usem::Tr;", squash(tv));
                            if reexp != vec![want_use.clone()] {
                                r.fail("re-export", &input, format!("re-exports {:?}, expected `{}`", reexp, want_use));
                            }
                            // C08
                            let got_m: Vec<String> = trait_methods(t).iter().map(|m| m.sig.ident.to_string()).collect();
                            let want_m: Vec<String> = fns.iter().map(|f| f.name.clone()).collect();
                            if got_m != want_m {
                                r.fail("method-list", &input, format!("trait methods {:?}, visible functions {:?}", got_m, want_m));
                                return;
                            }
                            let tg: Vec<String> = t.generics.params.iter().map(|p| tt_string(p)).collect();
                            if tg != want_lifted {
                                r.fail("trait-generics", &input, format!("trait generics {:?}, expected {:?}", tg, want_lifted));
                            }
                            for (k, m) in trait_methods(t).iter().enumerate() {
                                // C12
                                let rt = match &m.sig.output {
                                    syn::ReturnType::Type(_, t) => squash(&tt_string(t.as_ref())),
                                    _ => String::new(),
                                };
                                if fns[k].is_async {
                                    let send = if *maybe_send { "" } else { "+::core::marker::Send" };
                                    if m.sig.asyncness.is_some() || !(rt.starts_with("impl::core::future::Future<Output=") && rt.ends_with(&format!(">{}", send)) && rt.contains("marker::Send") != *maybe_send) {
                                        r.fail("async-signature", &input, format!("`{}` returns `{}`", fns[k].name, rt));
                                    }
                                } else if rt.contains("Future") || m.sig.asyncness.is_some() {
                                    r.fail("async-signature", &input, format!("sync `{}` returns `{}`", fns[k].name, rt));
                                }
                                match m.sig.inputs.first() {
                                    Some(syn::FnArg::Receiver(rc)) if rc.reference.is_some() != fns[k].by_value && rc.mutability.is_none() => {}
                                    other => r.fail("receiver", &input, format!("`{}` has receiver `{}`", fns[k].name, other.map(|x| tt_string(x)).unwrap_or_default())),
                                }
                            }
                            let ims = find_impls(gi, "Tr");
                            if ims.len() != 1 {
                                r.fail("impl-count", &input, format!("{} impls in the module", ims.len()));
                                return;
                            }
                            let im = ims[0];
                            let want_self = if *mockable { "::entrait::Impl<EntraitT>" } else { "EntraitT" };
                            if squash(&tt_string(&im.self_ty)) != want_self {
                                r.fail("self-type", &input, format!("implemented for `{}`", tt_string(&im.self_ty)));
                            }
                            let any_by_value = fns.iter().any(|f| f.by_value);
                            let want_first = format!("EntraitT : :: core :: marker :: Sync{} + 'static", if any_by_value { " + :: core :: marker :: Send" } else { "" });
                            let first = im.generics.params.first().map(|p| tt_string(p)).unwrap_or_default();
                            if first != want_first {
                                r.fail("thread-safety-bounds", &input, format!("`{}`, expected `{}`", first, want_first));
                            }
                            check_self_bounds(r, &input, im, "Self", &want_bounds);
                            let mm = impl_methods(im);
                            if mm.len() != fns.len() {
                                r.fail("method-count", &input, format!("{} delegating methods", mm.len()));
                                return;
                            }
                            for (k, m) in mm.iter().enumerate() {
                                check_delegating_method(r, &input, m, &fns[k].name, true, fns[k].is_async, fns[k].n_params, false);
                            }
                        } else {
                            // C07: inherent impl with the original items + the TrImpl implementation for X
                            let inherent: Vec<&syn::ItemImpl> = file.items.iter().filter_map(|i| if let syn::Item::Impl(i) = i { if i.trait_.is_none() { Some(i) } else { None } } else { None }).collect();
                            let orig: syn::ItemImpl = syn::parse_str(&item).unwrap();
                            if inherent.len() != 1 || inherent[0].items.iter().map(|x| tt_string(x)).collect::<Vec<_>>() != orig.items.iter().map(|x| tt_string(x)).collect::<Vec<_>>() {
                                r.fail("inherent-impl", &input, "the inherent impl does not hold exactly the original functions".into());
                            }
                            let ims = find_impls(&file.items, "TrImpl");
                            if ims.len() != 1 {
                                r.fail("impl-count", &input, format!("{} impls of TrImpl", ims.len()));
                                return;
                            }
                            let im = ims[0];
                            if squash(&tt_string(&im.self_ty)) != "X" {
                                r.fail("self-type", &input, format!("implemented for `{}`", tt_string(&im.self_ty)));
                            }
                            let targs = squash(&im.trait_.as_ref().map(|t| tt_string(&t.1)).unwrap_or_default());
                            let mut want_args = vec!["EntraitT".to_string()];
                            want_args.extend(want_lifted.iter().map(|l| l.split(' ').next().unwrap_or("").to_string()));
                            if targs != format!("TrImpl<{}>", want_args.join(",")) {
                                r.fail("trait-arguments", &input, format!("implements `{}`, expected TrImpl<{}>", targs, want_args.join(",")));
                            }
                            let first = im.generics.params.first().map(|p| tt_string(p)).unwrap_or_default();
                            if first != "EntraitT : :: core :: marker :: Sync + 'static" {
                                r.fail("thread-safety-bounds", &input, format!("`{}`", first));
                            }
                            check_self_bounds(r, &input, im, ":: entrait :: Impl < EntraitT >", &want_bounds);
                            let mm = impl_methods(im);
                            if mm.len() != fns.len() {
                                r.fail("method-count", &input, format!("{} delegating methods for {} functions", mm.len(), fns.len()));
                                return;
                            }
                            for (k, m) in mm.iter().enumerate() {
                                let ins: Vec<String> = m.sig.inputs.iter().map(|a| squash(&tt_string(a))).collect();
                                // the dependency parameter keeps the lifetime the deps reference had
                                let ip = format!("__impl:&{}::entrait::Impl<EntraitT>", fns[k].deps_lt);
                                let ok = if mode == 1 { ins.first() == Some(&ip) } else { ins.first() == Some(&format!("&{}self", fns[k].deps_lt)) && ins.get(1) == Some(&ip) };
                                if !ok || ins.len() != fns[k].n_params + if mode == 1 { 1 } else { 2 } {
                                    r.fail("target-receiver", &input, format!("`{}` takes {:?}", fns[k].name, ins));
                                }
                                let body = squash(&tt_string(&m.block));
                                let args: Vec<String> = m.sig.inputs.iter().skip(if mode == 1 { 1 } else { 2 }).filter_map(|a| if let syn::FnArg::Typed(p) = a { Some(squash(&tt_string(p.pat.as_ref()))) } else { None }).collect();
                                let mut call = vec!["__impl".to_string()];
                                call.extend(args);
                                let want = format!("{{Self::{}({}){}}}", fns[k].name, call.join(","), if fns[k].is_async { ".await" } else { "" });
                                if body != want {
                                    r.fail("forwarding-call", &input, format!("`{}` body `{}`, expected `{}`", fns[k].name, body, want));
                                }
                                if m.sig.asyncness.is_some() != fns[k].is_async {
                                    r.fail("async-signature", &input, format!("`{}` asyncness", fns[k].name));
                                }
                            }
                        }
                    });
                }
            }
        }
    }
}

/// the predicate on `subject` in the impl's where clause lists exactly `want` (in order); none when `want` is empty
fn check_self_bounds(r: &mut Report, input: &str, im: &syn::ItemImpl, subject: &str, want: &[String]) {
    let mut got: Vec<String> = vec![];
    let mut n = 0;
    if let Some(wc) = &im.generics.where_clause {
        for p in &wc.predicates {
            if let syn::WherePredicate::Type(pt) = p {
                if tt_string(&pt.bounded_ty) == subject {
                    n += 1;
                    got.extend(pt.bounds.iter().map(|b| tt_string(b)));
                }
            }
        }
    }
    // a set comparison: repeating a bound (or not) and the order are immaterial
    let as_set = |v: &[String]| -> std::collections::BTreeSet<String> { v.iter().cloned().collect() };
    if as_set(&got) != as_set(want) || n > 1 {
        r.fail("bounds-mismatch", input, format!("declared dependency bounds {:?} but the impl requires {}: {:?}", want, subject, got));
    }
}

/// C07 / C03: a function of an entraited impl block may return a borrow from its dependency; the generated `__impl`
/// parameter (impl side and delegation-target trait side) must carry the lifetime the deps reference had.
fn c07_borrow(_ctx: &Ctx, r: &mut Report) {
    r.domain = "impl-block functions and delegated trait methods whose result borrows from {the dependency via a named lifetime, the dependency via elision, an argument, nothing} x {static, ref, dyn} selection x {sync, async}".into();
    r.bound = "exhaustive over the listed shapes".into();
    // (generics, deps, further params, return, the lifetime the deps reference carries)
    let shapes: [(&str, &str, &str, &str, Option<&str>); 6] = [
        ("<'a, D: A>", "deps: &'a D", ", s: &'a str", "-> &'a str", Some("'a")),
        ("<'a>", "deps: &'a impl A", "", "-> &'a str", Some("'a")),
        ("<'a, 'b, D: A>", "deps: &'b D", ", s: &'a str", "-> (&'a str, &'b str)", Some("'b")),
        ("<D: A>", "deps: &D", "", "-> &str", None),
        ("<'a, D: A>", "deps: &D", ", s: &'a str", "-> &'a str", None),
        ("<D: A>", "deps: &D", ", n: u8", "-> u8", None),
    ];
    for (g, deps, rest, ret, lt) in shapes {
        for (mode, sel) in [(1usize, ""), (2, "ref"), (3, "dyn")] {
            for asy in ["", "async "] {
                let item = format!("impl TrImpl for X {{ {}fn f{}({}{}) {} {{ todo!() }} }}", asy, g, deps, rest, ret);
                let input = format!("#[entrait({})] {}", sel, item);
                r.guarded(&input, |r| {
                    let out = expand(Variant::Entrait, sel, &item);
                    if let Some(e) = compile_error_of(&out) {
                        r.fail("unexpected-error", &input, e);
                        return;
                    }
                    let file = match parse_file(&out) {
                        Ok(f) => f,
                        Err(e) => {
                            r.fail("unparsable", &input, e);
                            return;
                        }
                    };
                    let ims = find_impls(&file.items, "TrImpl");
                    let m = match ims.first().map(|i| impl_methods(i)) {
                        Some(ms) if ms.len() == 1 => ms[0],
                        _ => {
                            r.fail("impl-shape", &input, "no single delegating method".into());
                            return;
                        }
                    };
                    check_impl_param(r, &input, &m.sig, mode > 1, lt, ret);
                });
            }
        }
    }
    // the delegation-target trait generated from the user's trait
    let methods: [(&str, Option<&str>, &str); 4] = [
        ("fn f<'a>(&'a self, s: &'a str) -> &'a str;", Some("'a"), "-> &'a str"),
        ("fn f<'a, 'b>(&'b self, s: &'a str) -> (&'a str, &'b str);", Some("'b"), "-> (&'a str, &'b str)"),
        ("fn f(&self) -> &str;", None, "-> &str"),
        ("fn f(&self, n: u8) -> u8;", None, "-> u8"),
    ];
    for (decl, lt, ret) in methods {
        for (dynamic, attr) in [(false, "TrImpl, delegate_by = DelegateTr"), (true, "TrImpl, delegate_by = ref"), (true, "TrImpl, delegate_by = Borrow")] {
            let item = format!("trait Tr {{ {} }}", decl);
            let input = format!("#[entrait({})] {}", attr, item);
            r.guarded(&input, |r| {
                let out = expand(Variant::Entrait, attr, &item);
                if let Some(e) = compile_error_of(&out) {
                    r.fail("unexpected-error", &input, e);
                    return;
                }
                let file = match parse_file(&out) {
                    Ok(f) => f,
                    Err(e) => {
                        r.fail("unparsable", &input, e);
                        return;
                    }
                };
                match find_trait(&file.items, "TrImpl").map(|t| trait_methods(t)) {
                    Some(ms) if ms.len() == 1 => check_impl_param(r, &input, &ms[0].sig, dynamic, lt, ret),
                    _ => r.fail("target-trait-shape", &input, "no delegation-target trait with one method".into()),
                }
            });
        }
    }
}

fn flat(t: TokenStream) -> Vec<TokenTree> {
    let mut v = vec![];
    for tt in t {
        match tt {
            TokenTree::Group(g) => v.extend(flat(g.stream())),
            other => v.push(other),
        }
    }
    v
}

fn check_impl_param(r: &mut Report, input: &str, sig: &syn::Signature, dynamic: bool, lt: Option<&str>, ret: &str) {
    let ins: Vec<String> = sig.inputs.iter().map(|a| squash(&tt_string(a))).collect();
    let want_impl = format!("__impl:&{}::entrait::Impl<EntraitT>", lt.unwrap_or(""));
    let pos = if dynamic { 1 } else { 0 };
    if ins.get(pos) != Some(&want_impl) {
        r.fail("deps-lifetime-lost", input, format!("the dependency parameter of the generated signature is `{}`, expected `{}` (inputs {:?})", ins.get(pos).cloned().unwrap_or_default(), want_impl, ins));
    }
    if dynamic && !matches!(sig.inputs.first(), Some(syn::FnArg::Receiver(rc)) if rc.reference.is_some() && rc.mutability.is_none()) {
        r.fail("target-receiver", input, format!("inputs {:?}", ins));
    }
    // lifetime elision: next to a `&self` receiver an elided lifetime in the return type is the receiver's, i.e. the
    // implementor object's and not the dependency's (decided on the generated signature, not on the input)
    let out_toks: Vec<TokenTree> = match &sig.output {
        syn::ReturnType::Type(_, t) => flat(t.to_token_stream()),
        _ => vec![],
    };
    let elided = out_toks.iter().enumerate().any(|(i, t)| matches!(t, TokenTree::Punct(p) if p.as_char() == '&') && !matches!(out_toks.get(i + 1), Some(TokenTree::Punct(q)) if q.as_char() == '\''));
    let _ = ret;
    if dynamic && lt.is_none() && elided {
        r.fail("dyn-elided-borrow-from-deps", input, "the result borrows from the dependency through lifetime elision, but next to `&self` the elided lifetime of the generated signature is that of the implementor object".into());
    }
}

/// C03: the expansion compiles - a generic parameter list must not declare a name twice (E0403). Type and const
/// parameters of every function of a module are lifted onto the one generated trait.
fn c03_generic_names(_ctx: &Ctx, r: &mut Report) {
    r.domain = "modules and impl blocks with two or three generic functions whose type / const parameters have {distinct, equal} names, {equal, different} bounds".into();
    r.bound = "exhaustive over the listed shapes".into();
    let lists: [&[&str]; 6] = [&["T: Clone", "U: Clone"], &["T: Clone", "T: Clone"], &["T: Clone", "T: Default"], &["T", "U", "T"], &["const N: usize", "const N: usize"], &["T, U", "V, const N: usize"]];
    for gl in lists {
        for in_impl in [false, true] {
            let fns: Vec<String> = gl
                .iter()
                .enumerate()
                .map(|(i, g)| {
                    let first = g.split(|c| c == ':' || c == ',').next().unwrap().trim().trim_start_matches("const ").to_string();
                    let arg = if g.starts_with("const") { format!("a: [u8; {}]", first) } else { format!("a: {}", first) };
                    format!("{}fn f{}<{}>(deps: &impl A{}, {}) {{}}", if in_impl { "" } else { "pub " }, i, g, i, arg)
                })
                .collect();
            let (attr, item) = if in_impl { ("", format!("impl TrImpl for X {{ {} }}", fns.join(" "))) } else { ("Tr", format!("mod m {{ {} }}", fns.join(" "))) };
            let input = format!("#[entrait({})] {}", attr, item);
            r.guarded(&input, |r| {
                let out = expand(Variant::Entrait, attr, &item);
                if let Some(e) = compile_error_of(&out) {
                    r.fail("unexpected-error", &input, e);
                    return;
                }
                let file = match parse_file(&out) {
                    Ok(f) => f,
                    Err(e) => {
                        r.fail("unparsable", &input, e);
                        return;
                    }
                };
                let mut lists: Vec<(String, &syn::Generics)> = vec![];
                let items: &Vec<syn::Item> = mod_items(&file.items, "m").unwrap_or(&file.items);
                for it in items {
                    match it {
                        syn::Item::Trait(t) => lists.push((format!("trait {}", t.ident), &t.generics)),
                        syn::Item::Impl(i) if i.trait_.is_some() => lists.push(("generated impl".to_string(), &i.generics)),
                        _ => {}
                    }
                }
                for (what, g) in lists {
                    let names: Vec<String> = g
                        .params
                        .iter()
                        .map(|p| match p {
                            syn::GenericParam::Type(t) => t.ident.to_string(),
                            syn::GenericParam::Const(c) => c.ident.to_string(),
                            syn::GenericParam::Lifetime(l) => l.lifetime.to_string(),
                        })
                        .collect();
                    let mut seen = std::collections::BTreeSet::new();
                    for n in &names {
                        if !seen.insert(n.clone()) {
                            r.fail("module-generic-name-clash", &input, format!("{} declares the generic parameter `{}` twice: <{}> (E0403)", what, n, names.join(", ")));
                            break;
                        }
                    }
                }
            });
        }
    }
}
