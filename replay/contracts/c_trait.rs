//! Entraited traits: forwarding through Impl<T> (C06), dependency inversion (C07), trait preserved (C09).
use super::c_assemble::{check_delegating_method, impl_methods, trait_methods};
use super::*;

pub fn contracts() -> Vec<Contract> {
    vec![
        Contract { name: "c06_trait_forwarding", function: "entrait_trait/mod.rs::{output_tokens, gen_delegation_method, ImplWhereClause, DelegatingMethod}, out_trait.rs::analyze_trait", props: &["C06", "C19"], run: c06 },
        Contract { name: "c07_dependency_inversion", function: "entrait_trait/mod.rs::{gen_impl_delegation_trait_defs, gen_delegation_method, ImplWhereClause}, entrait_impl/mod.rs::output_tokens_for_impl, signature/converter.rs (StaticImpl / DynamicImpl receivers)", props: &["C07", "C19"], run: c07 },
        Contract { name: "c09_trait_preserved", function: "entrait_trait/out_trait.rs::analyze_trait, trait_codegen.rs::gen_trait_def, input.rs::Input::parse (unsafe / auto)", props: &["C09"], run: c09 },
    ]
}

fn squash(s: &str) -> String {
    s.chars().filter(|c| !c.is_whitespace()).collect()
}

struct TraitCase {
    generics: &'static str,
    args: &'static str, // how the trait is referred to with its arguments
    methods: Vec<(&'static str, &'static str, Vec<&'static str>, bool)>, // (name, full declaration, arg idents, async)
}

fn trait_cases() -> Vec<TraitCase> {
    vec![
        TraitCase { generics: "", args: "Tr", methods: vec![("f", "fn f(&self);", vec![], false)] },
        TraitCase { generics: "", args: "Tr", methods: vec![("f", "fn f(&self, a: i32, b: i32) -> i32;", vec!["a", "b"], false), ("g", "fn g(&self, a: i32, b: i32) -> i32;", vec!["a", "b"], false)] },
        TraitCase { generics: "<T>", args: "Tr<T>", methods: vec![("f", "fn f(&self, x: T) -> T;", vec!["x"], false), ("g", "fn g<U>(&self, u: U, s: &str) -> U;", vec!["u", "s"], false), ("h", "fn h(&self) -> &str;", vec![], false)] },
        TraitCase { generics: "", args: "Tr", methods: vec![("f", "async fn f(&self, a: String) -> usize;", vec!["a"], true), ("g", "fn g(&self, a: String, b: u8, c: u8);", vec!["a", "b", "c"], false)] },
        TraitCase { generics: "<'x, T: 'x>", args: "Tr<'x,T>", methods: vec![("f", "fn f(&self, r: &'x T) -> &'x T;", vec!["r"], false)] },
        TraitCase { generics: "", args: "Tr", methods: vec![("f", "fn f(self: &Self, a: i32) -> i32;", vec!["a"], false)] },
        TraitCase { generics: "", args: "Tr", methods: vec![("f", "fn f(&self, a: i32) -> i32;", vec!["a"], false), ("m", "fn m(&mut self, a: i32);", vec!["a"], false)] },
        TraitCase { generics: "<const N: usize, U, const M: usize>", args: "Tr<N,U,M>", methods: vec![("f", "fn f(&self, a: [U; N]) -> [u8; M];", vec!["a"], false)] },
    ]
}

fn header_ok(r: &mut Report, input: &str, im: &syn::ItemImpl) {
    // entrait's fixed requirement on the application type: Sync + 'static (never Send: the receiver is &self)
    // (lifetime parameters of the trait come first - rustc demands that order -, then entrait's own parameter)
    match im.generics.params.iter().find(|p| !matches!(p, syn::GenericParam::Lifetime(_))) {
        Some(syn::GenericParam::Type(tp)) if tp.ident == "EntraitT" => {
            let got: Vec<String> = tp.bounds.iter().map(|b| tt_string(b)).collect();
            if got != vec![":: core :: marker :: Sync".to_string(), "'static".to_string()] {
                r.fail("fixed-bounds", input, format!("EntraitT: {} but the fixed requirement is ::core::marker::Sync + 'static", got.join(" + ")));
            }
        }
        _ => r.fail("impl-generics", input, "the first type parameter of the impl is not EntraitT".into()),
    }
    if squash(&tt_string(&im.self_ty)) != "::entrait::Impl<EntraitT>" {
        r.fail("self-type", input, format!("implemented for `{}`", tt_string(&im.self_ty)));
    }
}

fn entrait_t_bounds(im: &syn::ItemImpl) -> Vec<String> {
    let mut v = vec![];
    if let Some(w) = &im.generics.where_clause {
        for p in &w.predicates {
            if let syn::WherePredicate::Type(pt) = p {
                if tt_string(&pt.bounded_ty) == "EntraitT" {
                    v.extend(pt.bounds.iter().map(|b| squash(&tt_string(b))));
                }
            }
        }
    }
    v
}

fn c06(_ctx: &Ctx, r: &mut Report) {
    r.domain = "8 trait shapes (1..3 methods, same-signature methods, generic trait, generic method, lifetimes, async, `self: &Self`) x delegation selector {default, delegate_by = Self, delegate_by = ref, delegate_by = Borrow} x {plain, async_trait}".into();
    r.bound = "exhaustive over the listed shapes".into();
    for tc in trait_cases() {
        for sel in ["", "delegate_by = Self", "delegate_by = ref", "delegate_by = Borrow"] {
            for at in ["", "#[async_trait]"] {
                let has_async = tc.methods.iter().any(|m| m.3);
                if !at.is_empty() && !has_async {
                    continue;
                }
                let decls: Vec<&str> = tc.methods.iter().map(|m| m.1).collect();
                let item = format!("{} pub trait Tr{} {{ {} }}", at, tc.generics, decls.join(" "));
                let input = format!("#[entrait({})] {}", sel, item);
                r.guarded(&input, |r| {
                    let out = expand(Variant::Entrait, sel, &item);
                    if let Some(e) = compile_error_of(&out) {
                        r.fail("unexpected-error", &input, e);
                        return;
                    }
                    let file = match parse_file(&out) {
                        Ok(f) => f,
                        Err(e) => {
                            r.fail("unparsable", &input, e);
                            return;
                        }
                    };
                    let ims = find_impls(&file.items, "Tr");
                    if ims.len() != 1 {
                        r.fail("impl-count", &input, format!("{} impls of Tr", ims.len()));
                        return;
                    }
                    let im = ims[0];
                    header_ok(r, &input, im);
                    let implemented = squash(&im.trait_.as_ref().map(|t| tt_string(&t.1)).unwrap_or_default());
                    if implemented != squash(tc.args) {
                        r.fail("trait-arguments", &input, format!("the impl is for `{}`, the trait is `{}`", implemented, squash(tc.args)));
                    }
                    // where clause: T provides the trait in the selected way
                    let bounds = entrait_t_bounds(im);
                    let targs = squash(tc.args);
                    let dyn_suffix = if has_async { "" } else { "" };
                    let _ = dyn_suffix;
                    let want_first = match sel {
                        "" | "delegate_by = Self" => targs.clone(),
                        "delegate_by = ref" => format!("::core::convert::AsRef<dyn{}>", targs),
                        _ => format!("::core::borrow::Borrow<dyn{}>", targs),
                    };
                    if bounds.first() != Some(&want_first) {
                        r.fail("provider-bound", &input, format!("EntraitT is bounded by {:?}, expected first `{}`", bounds, want_first));
                    }
                    for b in bounds.iter().skip(1) {
                        let ok = matches!(b.as_str(), "::core::marker::Sync" | "::core::marker::Send" | "'static");
                        if !ok {
                            r.fail("extra-bound", &input, format!("unexpected extra requirement `{}` on EntraitT", b));
                        }
                    }
                    // methods: one per trait method, same order, forwarding once with the same arguments
                    let ms = impl_methods(im);
                    if ms.len() != tc.methods.len() {
                        r.fail("method-count", &input, format!("{} trait methods, {} delegating methods", tc.methods.len(), ms.len()));
                        return;
                    }
                    for (k, (name, _decl, args, is_async)) in tc.methods.iter().enumerate() {
                        let m = ms[k];
                        if m.sig.ident != *name {
                            r.fail("method-order", &input, format!("method {} is `{}`, expected `{}`", k, m.sig.ident, name));
                        }
                        let body = squash(&tt_string(&m.block));
                        let chain = match sel {
                            "" | "delegate_by = Self" => "self.as_ref()",
                            "delegate_by = ref" => "self.as_ref().as_ref()",
                            _ => "self.as_ref().borrow()",
                        };
                        let want = format!("{{{}.{}({}){}}}", chain, name, args.join(","), if *is_async { ".await" } else { "" });
                        if body != want {
                            r.fail("forwarding-call", &input, format!("method `{}` body is `{}`, expected `{}`", name, body, want));
                        }
                    }
                });
            }
        }
    }
}

/// C19: paths the macro owns (`entrait::..`, `core::..`, `mockall::..`, `unimock::..`) that are written without the
/// leading `::` - a local item of that name in the invoking scope would capture them. Token-level scan of a whole
/// expansion; the inputs it is used on contain no such path themselves.
pub fn relative_macro_paths(ts: proc_macro2::TokenStream, found: &mut Vec<String>) {
    use proc_macro2::TokenTree;
    let toks: Vec<TokenTree> = ts.into_iter().collect();
    let colon = |t: Option<&TokenTree>| matches!(t, Some(TokenTree::Punct(p)) if p.as_char() == ':');
    for i in 0..toks.len() {
        match &toks[i] {
            TokenTree::Group(g) => relative_macro_paths(g.stream(), found),
            TokenTree::Ident(id) if ["entrait", "core", "std", "alloc", "mockall", "unimock"].contains(&id.to_string().as_str()) => {
                let followed = colon(toks.get(i + 1)) && colon(toks.get(i + 2));
                let preceded = i >= 2 && colon(toks.get(i - 1)) && colon(toks.get(i - 2));
                if followed && !preceded {
                    let ctx: Vec<String> = toks[i.saturating_sub(3)..(i + 6).min(toks.len())].iter().map(|t| t.to_string()).collect();
                    found.push(ctx.join(" "));
                }
            }
            _ => {}
        }
    }
}

/// receiver shapes x every way of delegating: nothing but the absolute-path scan (the exact oracles of c06 / c07 enumerate
/// `&self` / `&mut self` / `self: &Self` receivers only)
fn absolute_paths_over_receivers(r: &mut Report) {
    for decl in ["fn f(self, a: i32) -> i32;", "fn f(&self);", "fn f(&mut self, a: i32);", "async fn f(&self) -> u8;", "async fn f(self) -> u8;", "fn f(self: &Self);", "fn f<'a>(&'a self) -> &'a str;", "fn f(self: Box<Self>);"] {
        for sel in ["", "delegate_by = Self", "delegate_by = ref", "delegate_by = Borrow", "TrImpl, delegate_by = DelegateTr", "TrImpl, delegate_by = ref", "TrImpl, delegate_by = Borrow", "mockall", "unimock, mock_api = TrMock", "TrImpl, delegate_by = DelegateTr, ?Send"] {
            let item = format!("pub trait Tr {{ {} fn g(&self); }}", decl);
            let input = format!("#[entrait({})] {}", sel, item);
            r.guarded(&input, |r| {
                let out = expand(Variant::Entrait, sel, &item);
                let mut found = vec![];
                relative_macro_paths(out, &mut found);
                for f in found {
                    r.fail("relative-macro-path", &input, format!("a path owned by the macro is written without its leading `::`: `.. {} ..`", f));
                }
            });
        }
    }
}

fn c07(_ctx: &Ctx, r: &mut Report) {
    r.domain = "delegated traits (the shapes of c06) x {static: delegate_by = DelegateTr, dynamic: delegate_by = ref, dynamic: delegate_by = Borrow}; impl blocks `#[entrait] impl TrImpl for X` / `#[entrait(ref)]` / `#[entrait(dyn)]` with 1..3 fns, 0..2 further dependency bounds, sync and async; plus 8 receiver shapes (by value, `&self`, `&mut self`, `self: &Self`, `self: Box<Self>`, explicit lifetime, async) x 10 delegation / mock option sets for the absolute-path scan".into();
    r.bound = "exhaustive over the listed shapes".into();
    absolute_paths_over_receivers(r);
    for tc in trait_cases() {
        if tc.generics.contains("'x") {
            continue;
        }
        for (sel, dynamic) in [("TrImpl, delegate_by = DelegateTr", false), ("TrImpl, delegate_by = ref", true), ("TrImpl, delegate_by = Borrow", true)] {
            let decls: Vec<&str> = tc.methods.iter().map(|m| m.1).collect();
            let item = format!("pub trait Tr{} {{ {} }}", tc.generics, decls.join(" "));
            let input = format!("#[entrait({})] {}", sel, item);
            let has_async = tc.methods.iter().any(|m| m.3);
            r.guarded(&input, |r| {
                let out = expand(Variant::Entrait, sel, &item);
                if let Some(e) = compile_error_of(&out) {
                    r.fail("unexpected-error", &input, e);
                    return;
                }
                let file = match parse_file(&out) {
                    Ok(f) => f,
                    Err(e) => {
                        r.fail("unparsable", &input, e);
                        return;
                    }
                };
                // the delegation-target trait
                let target = match find_trait(&file.items, "TrImpl") {
                    Some(t) => t,
                    None => {
                        r.fail("no-target-trait", &input, "trait TrImpl not generated".into());
                        return;
                    }
                };
                match target.generics.params.first() {
                    Some(syn::GenericParam::Type(tp)) if tp.ident == "EntraitT" => {}
                    _ => r.fail("target-generics", &input, "TrImpl's first generic parameter is not EntraitT".into()),
                }
                let tms = trait_methods(target);
                if tms.len() != tc.methods.len() {
                    r.fail("target-method-count", &input, format!("{} methods in TrImpl, {} in Tr", tms.len(), tc.methods.len()));
                    return;
                }
                for (k, (name, _d, args, _)) in tc.methods.iter().enumerate() {
                    let sig = &tms[k].sig;
                    if sig.ident != *name {
                        r.fail("target-method-order", &input, format!("TrImpl method {} is `{}`", k, sig.ident));
                    }
                    let ins: Vec<String> = sig.inputs.iter().map(|a| squash(&tt_string(a))).collect();
                    let impl_param = "__impl:&::entrait::Impl<EntraitT>".to_string();
                    let self_tok = if _d.contains("&mut self") { "&mutself" } else { "&self" };
                    let head: Vec<String> = if dynamic { vec![self_tok.into(), impl_param.clone()] } else { vec![impl_param.clone()] };
                    let got_head: Vec<String> = ins.iter().take(head.len()).cloned().collect();
                    let recv_ok = got_head == head || (dynamic && got_head == vec!["self:&Self".to_string(), impl_param.clone()]);
                    if !recv_ok {
                        let class = if _d.contains("self: &Self") && !dynamic { "target-receiver-typed-self" } else { "target-receiver" };
                        r.fail(class, &input, format!("TrImpl::{} starts with ({}), expected ({})", name, got_head.join(", "), head.join(", ")));
                    }
                    if ins.len() != head.len() + args.len() {
                        r.fail("target-arity", &input, format!("TrImpl::{} has {} inputs", name, ins.len()));
                    }
                }
                if !dynamic {
                    // pub trait DelegateTr<T> { type Target: TrImpl<T>; }
                    match find_trait(&file.items, "DelegateTr") {
                        Some(d) => {
                            // `trait DelegateTr<P> { type Target: TrImpl<P>; }` for one type parameter P (its name is entrait's business)
                            let s = squash(&tt_string(d));
                            let p = match d.generics.params.first() {
                                Some(syn::GenericParam::Type(tp)) if d.generics.params.len() == 1 && tp.bounds.is_empty() => tp.ident.to_string(),
                                _ => String::new(),
                            };
                            if p.is_empty() || !s.contains(&format!("DelegateTr<{}>{{typeTarget:TrImpl<{}>;}}", p, p)) {
                                r.fail("selector-trait", &input, format!("selector trait is `{}`", tt_string(d)));
                            }
                        }
                        None => r.fail("selector-trait", &input, "selector trait DelegateTr not generated".into()),
                    }
                }
                // Impl<T> reaches the selected block
                let ims = find_impls(&file.items, "Tr");
                if ims.len() != 1 {
                    r.fail("impl-count", &input, format!("{} impls of Tr", ims.len()));
                    return;
                }
                header_ok(r, &input, ims[0]);
                let bounds = entrait_t_bounds(ims[0]);
                let plus_sync = if has_async { "+::core::marker::Sync" } else { "" };
                let want_first = if !dynamic {
                    "DelegateTr<EntraitT>".to_string()
                } else if sel.contains("Borrow") {
                    format!("::core::borrow::Borrow<dynTrImpl<EntraitT>{}>", plus_sync)
                } else {
                    format!("::core::convert::AsRef<dynTrImpl<EntraitT>{}>", plus_sync)
                };
                if bounds.first() != Some(&want_first) {
                    r.fail("selector-bound", &input, format!("EntraitT is bounded by {:?}, expected first `{}`", bounds, want_first));
                }
                let ms = impl_methods(ims[0]);
                for (k, (name, _d, args, is_async)) in tc.methods.iter().enumerate() {
                    if k >= ms.len() {
                        break;
                    }
                    let body = squash(&tt_string(&ms[k].block)).replace(",)", ")");
                    let mut call_args = vec!["self".to_string()];
                    call_args.extend(args.iter().map(|s| s.to_string()));
                    let want = if !dynamic {
                        format!("{{<EntraitT::TargetasTrImpl<EntraitT>>::{}({}){}}}", name, call_args.join(","), if *is_async { ".await" } else { "" })
                    } else if sel.contains("Borrow") {
                        format!("{{<EntraitTas::core::borrow::Borrow<dynTrImpl<EntraitT>{}>>::borrow(&*self).{}({}){}}}", plus_sync, name, call_args.join(","), if *is_async { ".await" } else { "" })
                    } else {
                        format!("{{<EntraitTas::core::convert::AsRef<dynTrImpl<EntraitT>{}>>::as_ref(&*self).{}({}){}}}", plus_sync, name, call_args.join(","), if *is_async { ".await" } else { "" })
                    };
                    if body != want {
                        r.fail("inversion-call", &input, format!("Tr::{} body is `{}`, expected `{}`", name, body, want));
                    }
                }
            });
        }
    }
    // impl blocks
    for (attr, dynamic) in [("", false), ("ref", true), ("dyn", true)] {
        for nfn in 1..=3usize {
            for is_async in [false, true] {
                for bounds in ["", "A", "A + B", "Repo<u8> + Repo<u16> + other::Repo<u8>"] {
                    let names = ["f", "g", "h"];
                    let fns: Vec<String> = (0..nfn)
                        .map(|k| {
                            let g = if bounds.is_empty() { "<D>".to_string() } else { format!("<D: {}>", bounds) };
                            format!("pub {} fn {}{}(deps: &D, a: i32, b: &str) -> i32 {{ body_{}!() }}", if is_async { "async" } else { "" }, names[k], g, names[k])
                        })
                        .collect();
                    let item = format!("impl TrImpl for MyType {{ const K: u8 = 1; {} }}", fns.join(" "));
                    let input = format!("#[entrait({})] {}", attr, item);
                    r.guarded(&input, |r| {
                        let out = expand(Variant::Entrait, attr, &item);
                        if let Some(e) = compile_error_of(&out) {
                            r.fail("unexpected-error", &input, e);
                            return;
                        }
                        let file = match parse_file(&out) {
                            Ok(f) => f,
                            Err(e) => {
                                r.fail("unparsable", &input, e);
                                return;
                            }
                        };
                        let ims = find_impls(&file.items, "TrImpl");
                        if ims.len() != 1 {
                            r.fail("impl-count", &input, format!("{} impls of TrImpl", ims.len()));
                            return;
                        }
                        let im = ims[0];
                        if squash(&tt_string(&im.self_ty)) != "MyType" {
                            r.fail("self-type", &input, format!("implemented for `{}`", tt_string(&im.self_ty)));
                        }
                        let tr = squash(&im.trait_.as_ref().map(|t| tt_string(&t.1)).unwrap_or_default());
                        if tr != "TrImpl<EntraitT>" {
                            r.fail("trait-arguments", &input, format!("implements `{}`, expected `TrImpl<EntraitT>`", tr));
                        }
                        // further dependencies are demanded of ::entrait::Impl<EntraitT>
                        let mut impl_bounds: Vec<String> = vec![];
                        if let Some(w) = &im.generics.where_clause {
                            for p in &w.predicates {
                                if let syn::WherePredicate::Type(pt) = p {
                                    if squash(&tt_string(&pt.bounded_ty)) == "::entrait::Impl<EntraitT>" {
                                        impl_bounds.extend(pt.bounds.iter().map(|b| tt_string(b)));
                                    }
                                }
                            }
                        }
                        let per_fn: Vec<String> = if bounds.is_empty() { vec![] } else { bounds.split(" + ").map(|b| tt_string(&ts(b))).collect() };
                        let want_b: Vec<String> = (0..nfn).flat_map(|_| per_fn.iter().cloned()).collect();
                        // "no declared bound dropped, none added": a set comparison (repeating a bound, or not, is immaterial)
                        let as_set = |v: &Vec<String>| -> std::collections::BTreeSet<String> { v.iter().cloned().collect() };
                        if as_set(&impl_bounds) != as_set(&want_b) {
                            r.fail("further-dependencies", &input, format!("Impl<EntraitT> must satisfy [{}], the where clause says [{}]", want_b.join(", "), impl_bounds.join(", ")));
                        }
                        let ms = impl_methods(im);
                        if ms.len() != nfn {
                            r.fail("method-count", &input, format!("{} fns, {} methods", nfn, ms.len()));
                            return;
                        }
                        for k in 0..nfn {
                            // method k calls Self::<fn k>(__impl, a, b)
                            let ins: Vec<String> = ms[k].sig.inputs.iter().map(|a| squash(&tt_string(a))).collect();
                            let head: Vec<&str> = if dynamic { vec!["&self", "__impl:&::entrait::Impl<EntraitT>"] } else { vec!["__impl:&::entrait::Impl<EntraitT>"] };
                            if ins.iter().take(head.len()).map(|s| s.as_str()).collect::<Vec<_>>() != head {
                                r.fail("impl-receiver", &input, format!("method {} inputs start with {:?}", names[k], ins));
                            }
                            let body = squash(&tt_string(&ms[k].block));
                            let want = format!("{{Self::{}(__impl,a,b){}}}", names[k], if is_async { ".await" } else { "" });
                            if body != want {
                                r.fail("block-call", &input, format!("method `{}` body is `{}`, expected `{}`", names[k], body, want));
                            }
                        }
                        // the original block survives as an inherent impl with every item
                        let inherent: Vec<&syn::ItemImpl> = file.items.iter().filter_map(|i| if let syn::Item::Impl(x) = i { if x.trait_.is_none() { Some(x) } else { None } } else { None }).collect();
                        if inherent.len() != 1 || inherent[0].items.len() != nfn + 1 {
                            r.fail("inherent-impl", &input, "the impl block's items were not re-emitted as one inherent impl".into());
                        }
                    });
                }
            }
        }
    }
}

fn c09(_ctx: &Ctx, r: &mut Report) {
    r.domain = "trait definitions: visibility {none, pub, pub(crate), pub(super), pub(self), pub(in super::a), pub(in crate::a)} x {safe, unsafe} x generics / supertraits / where clause {absent, present} x attributes on trait and methods x method kinds {required, with default body, async} x associated type {absent, present}; option sets {none, mockall, unimock, delegate_by = ref}".into();
    r.bound = "exhaustive over the listed features (2^k combinations)".into();
    for vis in ["", "pub", "pub(crate)", "pub(super)", "pub(self)", "pub(in super::a)", "pub(in crate::a)"] {
        for unsafety in ["", "unsafe"] {
            for feat in 0..64u32 {
                let const_first = feat & 32 != 0;
                let generics = feat & 1 != 0;
                let supers = feat & 2 != 0;
                let wher = feat & 4 != 0;
                let default_body = feat & 8 != 0;
                let assoc = feat & 16 != 0;
                if const_first && !generics {
                    continue;
                }
                for opts in ["", "mockall", "unimock", "delegate_by = ref", "pub TrImpl, delegate_by = ref", "pub(crate) TrImpl, delegate_by = DelegateTr"] {
                    let tattrs = "#[doc = \"trait docs\"] #[allow(dead_code)]";
                    let body = format!(
                        "{} #[doc = \"m\"] fn f(&self, a: i32) -> i32; {} async fn h<X>(&self, x: X) -> u8 where X: Send + 'static, Self: Sized;",
                        if assoc { "type Out;" } else { "" },
                        if default_body { "fn g(&self) -> i32 { 42 }" } else { "fn g(&self) -> i32;" }
                    );
                    let item = format!(
                        "{} {} {} trait Tr{} {} {} {{ {} }}",
                        tattrs,
                        vis,
                        unsafety,
                        if generics && const_first { "<'a, const N: usize, T: Clone, U>" } else if generics { "<'a, T: Clone, const N: usize>" } else { "" },
                        if supers { ": Send + Sync" } else { "" },
                        if wher && generics { "where T: Default" } else if wher { "where Self: Sized" } else { "" },
                        body
                    );
                    let input = format!("#[entrait({})] {}", opts, item);
                    r.guarded(&input, |r| {
                        let out = expand(Variant::Entrait, opts, &item);
                        if let Some(e) = compile_error_of(&out) {
                            r.fail("unexpected-error", &input, e);
                            return;
                        }
                        let file = match parse_file(&out) {
                            Ok(f) => f,
                            Err(e) => {
                                r.fail("unparsable", &input, e);
                                return;
                            }
                        };
                        let orig: syn::ItemTrait = syn::parse_str(&item).unwrap();
                        let t = match find_trait(&file.items, "Tr") {
                            Some(t) => t,
                            None => {
                                r.fail("no-trait", &input, "trait Tr missing from the expansion".into());
                                return;
                            }
                        };
                        if tt_string(&t.vis) != tt_string(&orig.vis) {
                            r.fail("visibility", &input, format!("`{}` became `{}`", tt_string(&orig.vis), tt_string(&t.vis)));
                        }
                        if t.unsafety.is_some() != orig.unsafety.is_some() {
                            r.fail("unsafety", &input, "the `unsafe` qualifier was not preserved".into());
                        }
                        if tt_string(&t.generics.params) != tt_string(&orig.generics.params) {
                            r.fail("generics", &input, format!("generics `{}` became `{}`", tt_string(&orig.generics.params), tt_string(&t.generics.params)));
                        }
                        if tt_string(&t.generics.where_clause) != tt_string(&orig.generics.where_clause) {
                            r.fail("where-clause", &input, format!("where clause `{}` became `{}`", tt_string(&orig.generics.where_clause), tt_string(&t.generics.where_clause)));
                        }
                        if tt_string(&t.supertraits) != tt_string(&orig.supertraits) {
                            r.fail("supertraits", &input, format!("supertraits `{}` became `{}`", tt_string(&orig.supertraits), tt_string(&t.supertraits)));
                        }
                        // attributes: the user's, in order; the macro may add only mock derivations it owns
                        let user: Vec<String> = orig.attrs.iter().map(|a| tt_string(a)).collect();
                        let got: Vec<String> = t.attrs.iter().map(|a| tt_string(a)).filter(|s| !(s.contains("unimock") || s.contains("automock"))).collect();
                        if got != user {
                            r.fail("trait-attributes", &input, format!("trait attributes {:?}, written {:?}", got, user));
                        }
                        // items
                        let om = trait_methods(&orig);
                        let tm = trait_methods(t);
                        if om.len() != tm.len() {
                            r.fail("method-count", &input, format!("{} methods became {}", om.len(), tm.len()));
                            return;
                        }
                        for (a, b) in om.iter().zip(tm.iter()) {
                            if a.attrs.iter().map(|x| tt_string(x)).collect::<Vec<_>>() != b.attrs.iter().map(|x| tt_string(x)).collect::<Vec<_>>() {
                                r.fail("method-attributes", &input, format!("attributes of `{}` changed", a.sig.ident));
                            }
                            if a.sig.asyncness.is_none() && tt_string(&a.sig) != tt_string(&b.sig) {
                                r.fail("method-signature", &input, format!("`{}` became `{}`", tt_string(&a.sig), tt_string(&b.sig)));
                            }
                            if a.sig.asyncness.is_some() {
                                // the documented rewrite touches `async` and the return type only
                                let strip = |s: &syn::Signature| {
                                    let mut s = s.clone();
                                    s.asyncness = None;
                                    s.output = syn::ReturnType::Default;
                                    format!("{} {}", tt_string(&s), tt_string(&s.generics.where_clause))
                                };
                                if strip(&a.sig) != strip(&b.sig) {
                                    r.fail("async-method-signature", &input, format!("apart from `async` / the return type, `{}` became `{}`", strip(&a.sig), strip(&b.sig)));
                                }
                            }
                            if a.default.is_some() && b.default.is_none() {
                                r.fail("default-body-dropped", &input, format!("the default body of `{}` was dropped", a.sig.ident));
                            } else if tt_string(&a.default) != tt_string(&b.default) {
                                r.fail("default-body-changed", &input, format!("the default body of `{}` changed", a.sig.ident));
                            }
                        }
                        let otypes = orig.items.iter().filter(|i| matches!(i, syn::TraitItem::Type(_))).count();
                        let ttypes = t.items.iter().filter(|i| matches!(i, syn::TraitItem::Type(_))).count();
                        if otypes != ttypes {
                            r.fail("associated-type-dropped", &input, format!("{} associated type(s) in the input, {} in the output", otypes, ttypes));
                        }
                    });
                }
            }
        }
    }
}
