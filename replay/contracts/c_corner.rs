//! Corner cases found by reading the generator with the property statements in hand (defect hunting, DESIGN 8.4a).
//! Each case is an input inside the class a property quantifies over, with a token-level oracle for what a correct
//! expansion must (not) look like. Cases the crate gets wrong on the unchanged tree are recorded in known_findings.json
//! under the class printed here; cases that were repaired stay as regression checks. Bounded (a catalogue), never
//! counted as proved.
use super::c_assemble::{impl_methods, trait_methods};
use super::*;
use quote::ToTokens;

pub fn contracts() -> Vec<Contract> {
    vec![
        Contract { name: "cz_signature_corners", function: "signature/converter.rs, analyze_generics.rs, fn_delegation_codegen.rs (fn / mod inputs)", props: &["C03", "C04", "C05", "C16"], run: sig_corners },
        Contract { name: "cz_trait_corners", function: "entrait_trait/mod.rs, generics.rs::ParamsGenerator (trait and impl-block inputs)", props: &["C06", "C07", "C09", "C19"], run: trait_corners },
        Contract { name: "cz_input_corners", function: "input.rs parsers, option parsers, entrait_for_mod", props: &["C02", "C08", "C15", "C17", "C18"], run: input_corners },
    ]
}

fn squash(s: &str) -> String {
    s.chars().filter(|c| !c.is_whitespace()).collect()
}

fn flat(t: TokenStream) -> Vec<TokenTree> {
    let mut v = vec![];
    for tt in t {
        match tt {
            TokenTree::Group(g) => v.extend(flat(g.stream())),
            other => v.push(other),
        }
    }
    v
}

/// all lifetimes (`'a`) that occur in a token stream, in order
fn lifetimes_in(t: TokenStream) -> Vec<String> {
    let v = flat(t);
    let mut out = vec![];
    for i in 0..v.len() {
        if let TokenTree::Punct(p) = &v[i] {
            if p.as_char() == '\'' {
                if let Some(TokenTree::Ident(id)) = v.get(i + 1) {
                    out.push(format!("'{}", id));
                }
            }
        }
    }
    out
}

/// lifetimes bound by `for<'a, 'b>` binders inside a token stream
fn for_bound_lifetimes(t: TokenStream) -> Vec<String> {
    let v = flat(t);
    let mut out = vec![];
    let mut i = 0;
    while i < v.len() {
        if matches!(&v[i], TokenTree::Ident(id) if id == "for") && matches!(v.get(i + 1), Some(TokenTree::Punct(p)) if p.as_char() == '<') {
            let mut j = i + 2;
            while j < v.len() && !matches!(&v[j], TokenTree::Punct(p) if p.as_char() == '>') {
                if let (TokenTree::Punct(p), Some(TokenTree::Ident(id))) = (&v[j], v.get(j + 1)) {
                    if p.as_char() == '\'' {
                        out.push(format!("'{}", id));
                    }
                }
                j += 1;
            }
            i = j;
        }
        i += 1;
    }
    out
}

/// lifetimes a generics header (`<..>` + where clause) uses without declaring them
fn undeclared_lifetimes(g: &syn::Generics, extra_uses: TokenStream) -> Vec<String> {
    let mut declared: Vec<String> = g.params.iter().filter_map(|p| if let syn::GenericParam::Lifetime(l) = p { Some(l.lifetime.to_string()) } else { None }).collect();
    declared.push("'static".into());
    declared.push("'_".into());
    let mut uses = TokenStream::new();
    for p in &g.params {
        match p {
            syn::GenericParam::Type(t) => t.bounds.to_tokens(&mut uses),
            syn::GenericParam::Lifetime(l) => l.bounds.to_tokens(&mut uses),
            syn::GenericParam::Const(_) => {}
        }
    }
    g.where_clause.to_tokens(&mut uses);
    uses.extend(extra_uses);
    declared.extend(for_bound_lifetimes(uses.clone()));
    let mut bad = vec![];
    for l in lifetimes_in(uses) {
        if !declared.contains(&l) && !bad.contains(&l) {
            bad.push(l);
        }
    }
    bad
}

fn has_elided_ref(t: TokenStream) -> bool {
    let v = flat(t);
    (0..v.len()).any(|i| matches!(&v[i], TokenTree::Punct(p) if p.as_char() == '&') && !matches!(v.get(i + 1), Some(TokenTree::Punct(q)) if q.as_char() == '\''))
}

fn mentions_ident(t: TokenStream, name: &str) -> bool {
    flat(t).iter().any(|tt| matches!(tt, TokenTree::Ident(id) if id == name))
}

struct Expansion {
    file: syn::File,
}

fn expand_ok(r: &mut Report, input: &str, attr: &str, item: &str) -> Option<Expansion> {
    let out = expand(Variant::Entrait, attr, item);
    if let Some(e) = compile_error_of(&out) {
        r.fail("unexpected-error", input, e);
        return None;
    }
    match parse_file(&out) {
        Ok(file) => Some(Expansion { file }),
        Err(e) => {
            r.fail("unparsable", input, e);
            None
        }
    }
}

// ------------------------------------------------------------------------------------------- fn / mod inputs

/// C03 / C04 / C07: the bounds of a named dependency parameter `D` move to the implementation header, however many
/// where-predicates declare them and wherever they stand among the others; nothing generated may still name `D`
/// (the first output item is the input itself)
const DEPS_PREDICATE_FNS: [&str; 6] = [
    "fn f<D>(deps: &D) where D: A, D: B {}",
    "fn f<D>(deps: &D) where D: A, D: B, D: C {}",
    "fn f<D, T>(deps: &D, t: T) where T: Clone, D: A, T: Copy, D: B {}",
    "fn f<D, T>(deps: &D, t: T) where D: A, T: Clone, D: B {}",
    "fn f<'x, D>(deps: &'x D, s: &'x str) -> &'x str where D: A, D: B { s }",
    "async fn f<D>(deps: &D, x: u8) -> u8 where D: A, D: B + Sync, u8: Copy { x }",
];
fn deps_predicates_removed(r: &mut Report, attr: &str, item: &str) {
    let input = format!("#[entrait({})] {}", attr, item);
    r.guarded(&input, |r| {
        let Some(x) = expand_ok(r, &input, attr, item) else { return };
        for it in x.file.items.iter().skip(1) {
            if mentions_ident(it.to_token_stream(), "D") {
                let what = match it {
                    syn::Item::Trait(_) => "trait",
                    _ => "impl",
                };
                r.fail("deps-predicate-kept", &input, format!("the generated {} still names the removed dependency parameter `D`: `{}`", what, tt_string(it)));
            }
        }
    });
}

fn sig_corners(_ctx: &Ctx, r: &mut Report) {
    r.domain = "fn / mod inputs from the C03 / C04 / C05 classes that earlier contracts had not enumerated: elided borrows under no_deps, function lifetimes inside bounds and where-predicates, generics that cannot be inferred from the arguments, the dependency generic used a second time, relaxed bounds, concrete dependencies by value".into();
    r.bound = "fixed catalogue (listed in the contract source)".into();

    // --- C03 / C04: several where-predicates on the dependency parameter (fn and module inputs)
    for f in DEPS_PREDICATE_FNS {
        deps_predicates_removed(r, "Tr", f);
        deps_predicates_removed(r, "Tr", &format!("mod m {{ pub {} pub fn g(deps: &impl A) {{}} }}", f));
    }

    // --- C03: a borrowed return under `no_deps` (elision must not re-bind to the inserted `&self`)
    for item in ["fn f(a: &str) -> &str { a }", "async fn f(a: &str) -> &str { a }", "fn f(a: &str, n: u8) -> std::str::Chars<'_> { a.chars() }", "fn f<'x>(a: &'x str) -> &'x str { a }", "fn f(a: &str) -> usize { a.len() }"] {
        let input = format!("#[entrait(Tr, no_deps)] {}", item);
        r.guarded(&input, |r| {
            let Some(x) = expand_ok(r, &input, "Tr, no_deps", item) else { return };
            let Some(t) = find_trait(&x.file.items, "Tr") else { return r.fail("no-trait", &input, "trait not generated".into()) };
            for m in trait_methods(t) {
                let ret = match &m.sig.output {
                    syn::ReturnType::Type(_, t) => t.to_token_stream(),
                    _ => TokenStream::new(),
                };
                let inserted_ref_self = matches!(m.sig.inputs.first(), Some(syn::FnArg::Receiver(rc)) if rc.reference.is_some());
                let elided = has_elided_ref(ret.clone()) || lifetimes_in(ret).contains(&"'_".to_string());
                if inserted_ref_self && elided {
                    r.fail("nodeps-elided-return-rebinds", &input, format!("the result borrows from an argument through lifetime elision; with the inserted `&self` the elided lifetime of `{}` is the receiver's", tt_string(&m.sig)));
                }
            }
        });
    }

    // --- C03 / C04 / C05: lifetimes of the function inside bounds, where-predicates, dependency bounds, concrete types
    let lifetime_cases: [(&str, &str); 9] = [
        ("Tr", "fn f<'a, T: 'a + Clone>(deps: &impl A, t: &'a T) -> &'a T { t }"),
        ("Tr", "fn f<'a, 'b, T>(deps: &impl A, x: &'a T, y: &'b T) -> &'a T where T: 'a, 'b: 'a { x }"),
        ("Tr", "fn f<'a, 'b: 'a, T>(deps: &impl A, x: &'a T, y: &'b T) -> &'a T { x }"),
        ("Tr", "fn f<'a, D: Get<'a>>(deps: &'a D) -> &'a str { deps.get() }"),
        ("Tr", "fn f<'a>(deps: &impl Get<'a>, s: &'a str) -> &'a str { s }"),
        ("Tr", "fn f<D>(deps: &D) -> usize where for<'a> D: Get<'a> { 0 }"),
        ("Tr", "fn f<D>(deps: &D) -> usize where D: for<'a> Get<'a> { 0 }"),
        ("Tr", "fn f<'a, 'b>(app: &'a App, s: &'b str) -> &'a str where 'b: 'a { todo!() }"),
        ("Tr", "fn f<'a>(h: &Holder<'a>, n: u8) -> &'a str { todo!() }"),
    ];
    for (attr, item) in lifetime_cases {
        let input = format!("#[entrait({})] {}", attr, item);
        r.guarded(&input, |r| {
            let Some(x) = expand_ok(r, &input, attr, item) else { return };
            for it in &x.file.items {
                match it {
                    syn::Item::Trait(t) => {
                        let bad = undeclared_lifetimes(&t.generics, TokenStream::new());
                        if !bad.is_empty() {
                            r.fail("undeclared-lifetime-in-header", &input, format!("trait {} uses {} in its generics / where clause without declaring it (the lifetime stays on the method): `{}` `{}`", t.ident, bad.join(", "), tt_string(&t.generics), tt_string(&t.generics.where_clause)));
                        }
                    }
                    syn::Item::Impl(i) if i.trait_.is_some() => {
                        let mut extra = i.self_ty.to_token_stream();
                        if let Some((_, p, _)) = &i.trait_ {
                            p.to_tokens(&mut extra);
                        }
                        let bad = undeclared_lifetimes(&i.generics, extra);
                        if !bad.is_empty() {
                            r.fail("undeclared-lifetime-in-header", &input, format!("the generated impl uses {} in its header without declaring it: `impl {} .. for {} {}`", bad.join(", "), tt_string(&i.generics), tt_string(&i.self_ty), tt_string(&i.generics.where_clause)));
                        }
                    }
                    _ => {}
                }
            }
        });
    }

    // --- C03: type / const parameters that no argument mentions must be forwarded explicitly
    for item in ["fn f<T: Default + std::fmt::Debug>(deps: &impl A) -> String { format!(\"{:?}\", T::default()) }", "fn f<const N: usize>(deps: &impl A) -> usize { N }", "fn f<T: Clone>(deps: &impl A, t: T) -> T { t }", "fn f<T: Default>(deps: &impl A) -> T { T::default() }"] {
        let input = format!("#[entrait(Tr)] {}", item);
        r.guarded(&input, |r| {
            let Some(x) = expand_ok(r, &input, "Tr", item) else { return };
            let Some(t) = find_trait(&x.file.items, "Tr") else { return };
            let Some(im) = find_impls(&x.file.items, "Tr").first().copied() else { return };
            for (tm, m) in trait_methods(t).iter().zip(impl_methods(im)) {
                // a parameter is inferable if an argument type or the return type mentions it
                let mut arg_types = TokenStream::new();
                for a in &tm.sig.inputs {
                    if let syn::FnArg::Typed(p) = a {
                        p.ty.to_tokens(&mut arg_types);
                    }
                }
                tm.sig.output.to_tokens(&mut arg_types);
                let lifted: Vec<String> = t.generics.params.iter().filter_map(|p| match p {
                    syn::GenericParam::Type(t) => Some(t.ident.to_string()),
                    syn::GenericParam::Const(c) => Some(c.ident.to_string()),
                    _ => None,
                }).collect();
                let body = squash(&tt_string(&m.block));
                for g in lifted {
                    if !mentions_ident(arg_types.clone(), &g) && !body.contains("::<") {
                        r.fail("uninferable-generic-not-forwarded", &input, format!("`{}` occurs in no argument type and the forwarding call `{}` does not pass it on (E0283 / E0284)", g, tt_string(&m.block)));
                    }
                }
            }
        });
    }

    // --- C03 / C04: the dependency generic used a second time
    for item in ["fn f<D: HasOut>(deps: &D) -> D::Out { deps.out() }", "fn f<D: A>(deps: &D, other: &D) {}", "fn f<D: HasOut>(deps: &D) -> i32 where D::Out: Into<i32> { 0 }", "fn f<D: A, T: From<D>>(deps: &D, t: T) {}"] {
        let input = format!("#[entrait(Tr)] {}", item);
        r.guarded(&input, |r| {
            let Some(x) = expand_ok(r, &input, "Tr", item) else { return };
            for it in x.file.items.iter().skip(1) {
                let toks = it.to_token_stream();
                if mentions_ident(toks, "D") {
                    let what = match it {
                        syn::Item::Trait(_) => "trait",
                        _ => "impl",
                    };
                    r.fail("deps-generic-still-referenced", &input, format!("the generated {} still refers to the removed dependency parameter `D`", what));
                }
            }
        });
    }

    // --- C04: relaxed bounds are not requirements (regression check for fix d902a58) and `&&` dependencies
    for item in ["fn f<D: A + ?Sized>(deps: &D) {}", "fn f(deps: &(impl A + ?Sized)) {}", "fn f<D>(deps: &D) where D: ?Sized + A {}"] {
        let input = format!("#[entrait(Tr)] {}", item);
        r.guarded(&input, |r| {
            let Some(x) = expand_ok(r, &input, "Tr", item) else { return };
            for im in find_impls(&x.file.items, "Tr") {
                if squash(&tt_string(&im.generics.where_clause)).contains("?Sized") {
                    r.fail("relaxed-bound-required", &input, format!("`?Sized` was copied into `{}`", tt_string(&im.generics.where_clause)));
                }
            }
        });
    }

    // --- C16 / C15: raw identifiers are the same names as their plain spelling (regression check for fix 38143dd)
    for item in ["fn r#match(deps: &impl A, r#match: i32) -> i32 { r#match }", "fn foo(deps: &impl A, r#foo: i32) -> i32 { r#foo }", "fn r#bar(deps: &impl A, bar: i32) -> i32 { bar }", "fn r#type(deps: &impl A, W(r#type): W) {}", "fn f(deps: &impl A, r#arg1: i32, _: i32) {}", "fn f(deps: &impl A, W(r#arg1): W, _: i32) {}"] {
        let input = format!("#[entrait(Tr)] {}", item);
        r.guarded(&input, |r| {
            let Some(x) = expand_ok(r, &input, "Tr", item) else { return };
            let Some(t) = find_trait(&x.file.items, "Tr") else { return };
            for m in trait_methods(t) {
                use syn::ext::IdentExt;
                let mut seen: Vec<String> = vec![];
                for a in &m.sig.inputs {
                    if let syn::FnArg::Typed(p) = a {
                        if let syn::Pat::Ident(pi) = p.pat.as_ref() {
                            if pi.ident.unraw() == m.sig.ident.unraw() {
                                r.fail("raw-identifier-shadows-function", &input, format!("parameter `{}` of `{}` is the function's own name", pi.ident, m.sig.ident));
                            }
                            let n = pi.ident.unraw().to_string();
                            if seen.contains(&n) {
                                r.fail("raw-identifier-bound-twice", &input, format!("`{}` is bound twice in `{}`", n, tt_string(&m.sig)));
                            }
                            seen.push(n);
                        }
                    }
                }
            }
        });
    }

    // --- C05: a dependency type that arrives as a `$t:ty` macro fragment (regression check for fix 7b1f1df)
    {
        let grp: TokenStream = std::iter::once(TokenTree::Group(proc_macro2::Group::new(Delimiter::None, ts("impl A")))).collect();
        let mut params = ts("deps: &");
        params.extend(grp);
        let mut f = ts("fn f");
        f.extend(std::iter::once(TokenTree::Group(proc_macro2::Group::new(Delimiter::Parenthesis, params))));
        f.extend(ts("{}"));
        let item = f;
        let input = "#[entrait(Tr)] fn f(deps: &<none>impl A</none>) {}";
        r.guarded(input, |r| {
            let out = expand_ts(Variant::Entrait, ts("Tr"), item.clone());
            if let Some(e) = compile_error_of(&out) {
                return r.fail("unexpected-error", input, e);
            }
            let Ok(file) = parse_file(&out) else { return r.fail("unparsable", input, "output does not parse".into()) };
            for im in find_impls(&file.items, "Tr") {
                if squash(&tt_string(&im.self_ty)).contains("impl") {
                    r.fail("fragment-dependency-taken-as-concrete", input, format!("implemented for `{}`", tt_string(&im.self_ty)));
                }
            }
        });
    }

    // --- C01 / C04: a reference dependency in parentheses or in a `$t:ty` fragment keeps a by-reference receiver
    //     (regression check for fix 55f5a08)
    {
        let frag = |inner: &str| -> TokenStream { std::iter::once(TokenTree::Group(proc_macro2::Group::new(Delimiter::None, ts(inner)))).collect() };
        let mut cases: Vec<(String, TokenStream)> = vec![];
        cases.push(("fn f(deps: (&impl A), x: i32) {}".into(), ts("fn f(deps: (&impl A), x: i32) {}")));
        cases.push(("fn f<D: A>(deps: ((&D)), x: i32) {}".into(), ts("fn f<D: A>(deps: ((&D)), x: i32) {}")));
        for inner in ["&impl A", "&App", "&'static App"] {
            let mut params = ts("deps:");
            params.extend(frag(inner));
            params.extend(ts(", x: i32"));
            let mut f = ts("fn f");
            f.extend(std::iter::once(TokenTree::Group(proc_macro2::Group::new(Delimiter::Parenthesis, params))));
            f.extend(ts("{}"));
            cases.push((format!("fn f(deps: <none>{}</none>, x: i32) {{}}", inner), f));
        }
        for (text, item) in cases {
            let input = format!("#[entrait(Tr)] {}", text);
            r.guarded(&input, |r| {
                let out = expand_ts(Variant::Entrait, ts("Tr"), item.clone());
                if let Some(e) = compile_error_of(&out) {
                    return r.fail("unexpected-error", &input, e);
                }
                let Ok(file) = parse_file(&out) else { return r.fail("unparsable", &input, "output does not parse".into()) };
                let Some(t) = find_trait(&file.items, "Tr") else { return };
                for m in trait_methods(t) {
                    if !matches!(m.sig.inputs.first(), Some(syn::FnArg::Receiver(rc)) if rc.reference.is_some()) {
                        r.fail("wrapped-reference-dependency-by-value", &input, format!("the dependency is a reference, but the method is `{}`", tt_string(&m.sig)));
                    }
                }
                for im in find_impls(&file.items, "Tr") {
                    if squash(&tt_string(&im.generics.params)).contains("marker::Send") {
                        r.fail("wrapped-reference-dependency-by-value", &input, format!("an undeclared `Send` requirement: `impl<{}>`", tt_string(&im.generics.params)));
                    }
                }
            });
        }
    }

    // --- C03: where-predicates on projections / with relaxed bounds, `impl Trait` inside the dependency type, `-> !`
    let more: [(&str, &str, &str); 7] = [
        ("where-clause-split", "Tr", "fn f<D, T>(deps: &D, t: T) -> Vec<T::Item> where D: A, T: Iterator, T::Item: Clone { todo!() }"),
        ("relaxed-where-on-method", "Tr", "fn f<T>(deps: &impl A, t: &T) -> String where T: ?Sized + ToString { t.to_string() }"),
        ("impl-trait-in-header", "Tr", "fn f(deps: &Holder<impl A>, x: u8) {}"),
        ("impl-trait-in-header", "Tr", "fn f(deps: &impl Get<Out = impl std::fmt::Display>) {}"),
        ("never-type-in-output", "Tr", "async fn f(deps: &impl A) -> ! { loop {} }"),
        ("deps-generic-still-referenced", "Tr", "fn f<D>(deps: &D) where (D): A {}"),
        ("generic-param-cfg", "Tr", "fn f<#[cfg(any())] T, U: Clone>(deps: &impl A, a: &U) -> U { a.clone() }"),
    ];
    for (class, attr, item) in more {
        let input = format!("#[entrait({})] {}", attr, item);
        r.guarded(&input, |r| {
            let Some(x) = expand_ok(r, &input, attr, item) else { return };
            let Some(t) = find_trait(&x.file.items, "Tr") else { return r.fail("no-trait", &input, "trait not generated".into()) };
            let ims = find_impls(&x.file.items, "Tr");
            match class {
                "where-clause-split" => {
                    // a predicate on a projection of T must sit where the bound that gives T its projection sits
                    let tw = squash(&tt_string(&t.generics.where_clause));
                    let tg = squash(&tt_string(&t.generics.params));
                    if tw.contains("T::Item:Clone") && !(tw.contains("T:Iterator") || tg.contains("T:Iterator")) {
                        r.fail(class, &input, format!("the trait carries `T::Item: Clone` but `T: Iterator` stayed on the method only (E0220): `trait Tr<{}> {}`", tt_string(&t.generics.params), tt_string(&t.generics.where_clause)));
                    }
                }
                "relaxed-where-on-method" => {
                    for m in trait_methods(t) {
                        let mw = squash(&tt_string(&m.sig.generics.where_clause));
                        if mw.contains("?Sized") && !m.sig.generics.params.iter().any(|p| matches!(p, syn::GenericParam::Type(tp) if tp.ident == "T")) {
                            r.fail(class, &input, format!("`T` was lifted onto the trait, but `{}` stayed on the method, where a relaxed bound is not permitted", tt_string(&m.sig.generics.where_clause)));
                        }
                    }
                }
                "impl-trait-in-header" => {
                    for im in &ims {
                        let hdr = format!("{} {}", tt_string(&im.self_ty), tt_string(&im.generics.where_clause));
                        if mentions_ident(ts(&hdr), "impl") {
                            r.fail(class, &input, format!("`impl Trait` ends up in the header of the generated impl (E0562): `for {}`", hdr));
                        }
                    }
                }
                "never-type-in-output" => {
                    for m in trait_methods(t) {
                        if squash(&tt_string(&m.sig.output)).contains("Output=!") {
                            r.fail(class, &input, format!("`{}` needs the unstable never type (E0658); the plain async fn is stable Rust", tt_string(&m.sig.output)));
                        }
                    }
                }
                "deps-generic-still-referenced" => {
                    for it in x.file.items.iter().skip(1) {
                        if mentions_ident(it.to_token_stream(), "D") {
                            r.fail(class, &input, "the generated code still refers to the removed dependency parameter `D` (the bound `(D): A` was not recognised as a dependency bound)".into());
                        }
                    }
                }
                "generic-param-cfg" => {
                    for im in &ims {
                        let args = squash(&im.trait_.as_ref().map(|t| tt_string(&t.1)).unwrap_or_default());
                        if args.contains("<T,") || args.contains("<T>") {
                            r.fail(class, &input, format!("`T` is `#[cfg(any())]` in the input, but the generated impl names it unconditionally: `{}`", args));
                        }
                    }
                }
                _ => {}
            }
        });
    }

    // --- C03 / C08: a generic function of a module makes every sibling method generic
    {
        let item = "mod m { pub fn get<T: Default>(deps: &impl A) -> T { T::default() } pub fn ping(deps: &impl A) {} }";
        let input = format!("#[entrait(Tr)] {}", item);
        r.guarded(&input, |r| {
            let Some(x) = expand_ok(r, &input, "Tr", item) else { return };
            let Some(t) = mod_items(&x.file.items, "m").and_then(|it| find_trait(it, "Tr")) else { return };
            if !t.generics.params.is_empty() {
                let idle: Vec<String> = trait_methods(t).iter().filter(|m| !mentions_ident(m.sig.to_token_stream(), "T")).map(|m| m.sig.ident.to_string()).collect();
                if !idle.is_empty() {
                    r.fail("module-sibling-generic", &input, format!("`T` of `get` became a parameter of the whole trait `Tr<{}>`; methods {:?} do not mention it, so calling them leaves `T` unconstrained (E0283) and `&impl Tr` needs an argument (E0107)", tt_string(&t.generics.params), idle));
                }
            }
        });
    }

    // --- C05 / C03: a concrete dependency taken by value, through the `Impl<T>` forwarding that the nested
    //     `#[entrait]` on the generated trait produces
    for item in ["fn a(deps: App, x: i32) -> i32 { x }", "fn a(deps: &App, x: i32) -> i32 { x }"] {
        let input = format!("#[entrait(Tr)] {}", item);
        r.guarded(&input, |r| {
            let Some(x) = expand_ok(r, &input, "Tr", item) else { return };
            let Some(t) = find_trait(&x.file.items, "Tr") else { return };
            let mut plain = t.clone();
            plain.attrs.retain(|a| !squash(&tt_string(a)).contains("entrait::entrait"));
            let second = expand(Variant::Entrait, "unimock = false, mockall = false", &tt_string(&plain));
            let Ok(f2) = parse_file(&second) else { return r.fail("nested-expansion", &input, "the nested expansion of the generated trait does not parse".into()) };
            for im in find_impls(&f2.items, "Tr") {
                for m in impl_methods(im) {
                    let by_value = matches!(m.sig.inputs.first(), Some(syn::FnArg::Receiver(rc)) if rc.reference.is_none());
                    if by_value && squash(&tt_string(&m.block)).starts_with("{self.as_ref().") {
                        r.fail("by-value-through-as-ref", &input, format!("`{}` takes `self` by value but forwards through `self.as_ref()`, a shared reference (E0507): `{}`", m.sig.ident, tt_string(&m.block)));
                    }
                }
            }
        });
    }
}

// ------------------------------------------------------------------------------------------- trait / impl-block inputs

fn trait_corners(_ctx: &Ctx, r: &mut Report) {
    r.domain = "trait and impl-block inputs from the C06 / C07 / C09 / C19 classes that earlier contracts had not enumerated: lifetime and defaulted trait parameters, generic methods, method names that collide with the forwarding path, receiver elision under static selection, generic methods in impl blocks".into();
    r.bound = "fixed catalogue (listed in the contract source)".into();

    // --- C07: several where-predicates on the dependency parameter of a function in an impl block
    for f in DEPS_PREDICATE_FNS {
        for attr in ["", "ref"] {
            deps_predicates_removed(r, attr, &format!("impl TrImpl for X {{ {} }}", f));
        }
    }

    // --- C06 / C09: the impl header of a generic trait
    for item in ["trait Tr<'a> { fn f(&self, k: &str) -> Option<&'a str>; }", "trait Tr<T = i32> { fn f(&self) -> T; }", "trait Tr<const N: usize = 2> { fn f(&self) -> [u8; N]; }", "trait Tr<'a, T: 'a> { fn f(&self) -> &'a T; }", "trait Tr<T, const N: usize> { fn f(&self, t: T) -> [T; N]; }"] {
        for attr in ["", "delegate_by = ref"] {
            let input = format!("#[entrait({})] {}", attr, item);
            r.guarded(&input, |r| {
                let Some(x) = expand_ok(r, &input, attr, item) else { return };
                for im in find_impls(&x.file.items, "Tr") {
                    let mut seen_non_lifetime = false;
                    for p in &im.generics.params {
                        match p {
                            syn::GenericParam::Lifetime(l) => {
                                if seen_non_lifetime {
                                    r.fail("impl-header-lifetime-after-type", &input, format!("`impl<{}>` declares the lifetime `{}` after a type parameter, which rustc rejects", tt_string(&im.generics.params), l.lifetime));
                                }
                            }
                            syn::GenericParam::Type(t) => {
                                seen_non_lifetime = true;
                                if t.default.is_some() {
                                    r.fail("impl-header-default", &input, format!("`impl<{}>` carries the default of `{}`; defaults are not allowed in impl headers", tt_string(&im.generics.params), t.ident));
                                }
                            }
                            syn::GenericParam::Const(c) => {
                                seen_non_lifetime = true;
                                if c.default.is_some() {
                                    r.fail("impl-header-default", &input, format!("`impl<{}>` carries the default of `{}`; defaults are not allowed in impl headers", tt_string(&im.generics.params), c.ident));
                                }
                            }
                        }
                    }
                }
            });
        }
    }

    // --- C06 / C07: generic methods: parameters no argument mentions must be forwarded
    for attr in ["", "delegate_by = ref", "TrImpl, delegate_by = DelegateTr"] {
        let item = "trait Tr { fn make<U: Default + ToString>(&self) -> String; fn len<const N: usize>(&self) -> usize; fn id<V>(&self, v: V) -> V; }";
        let input = format!("#[entrait({})] {}", attr, item);
        r.guarded(&input, |r| {
            let Some(x) = expand_ok(r, &input, attr, item) else { return };
            for im in find_impls(&x.file.items, "Tr") {
                for m in impl_methods(im) {
                    let mut arg_types = TokenStream::new();
                    for a in &m.sig.inputs {
                        if let syn::FnArg::Typed(p) = a {
                            p.ty.to_tokens(&mut arg_types);
                        }
                    }
                    m.sig.output.to_tokens(&mut arg_types);
                    for p in &m.sig.generics.params {
                        let g = match p {
                            syn::GenericParam::Type(t) => t.ident.to_string(),
                            syn::GenericParam::Const(c) => c.ident.to_string(),
                            _ => continue,
                        };
                        if !mentions_ident(arg_types.clone(), &g) && !squash(&tt_string(&m.block)).contains("::<") {
                            r.fail("uninferable-generic-not-forwarded", &input, format!("`{}::{}`: `{}` occurs in no argument type and the forwarding call `{}` does not pass it on (E0283 / E0284)", "Tr", m.sig.ident, g, tt_string(&m.block)));
                        }
                    }
                }
            }
        });
    }

    // --- C19 / C06: the forwarding path `self.as_ref()` / `.borrow()` is written in method-call syntax
    for (attr, item) in [("", "trait Tr { fn as_ref(&self) -> u8; }"), ("delegate_by = Borrow", "trait Tr { fn borrow(&self) -> u8; }"), ("", "trait Tr { fn f(&self) -> u8; }")] {
        let input = format!("#[entrait({})] {}", attr, item);
        r.guarded(&input, |r| {
            let Some(x) = expand_ok(r, &input, attr, item) else { return };
            let orig: syn::ItemTrait = syn::parse_str(item).unwrap();
            let names: Vec<String> = trait_methods(&orig).iter().map(|m| m.sig.ident.to_string()).collect();
            for im in find_impls(&x.file.items, "Tr") {
                for m in impl_methods(im) {
                    let body = squash(&tt_string(&m.block));
                    for hop in ["as_ref", "borrow"] {
                        if names.iter().any(|n| n == hop) && body.contains(&format!("self.{}()", hop)) || names.iter().any(|n| n == hop) && body.contains(&format!(".{}().{}(", hop, hop)) {
                            r.fail("forwarding-call-ambiguous", &input, format!("the trait has a method `{}` and the forwarding call `{}` reaches the provider through `.{}()` in method-call syntax (E0034)", hop, tt_string(&m.block), hop));
                        }
                    }
                }
            }
        });
    }

    // --- C07: static selection: a result borrowed from `&self` by elision, next to another reference argument
    for item in ["trait Tr { fn name(&self, key: &str) -> &str; }", "trait Tr { fn name(&self) -> &str; }", "trait Tr { fn name<'a>(&'a self, key: &str) -> &'a str; }"] {
        let attr = "TrImpl, delegate_by = DelegateTr";
        let input = format!("#[entrait({})] {}", attr, item);
        r.guarded(&input, |r| {
            let Some(x) = expand_ok(r, &input, attr, item) else { return };
            let Some(t) = find_trait(&x.file.items, "TrImpl") else { return r.fail("no-target-trait", &input, "TrImpl not generated".into()) };
            for m in trait_methods(t) {
                let ret = match &m.sig.output {
                    syn::ReturnType::Type(_, t) => t.to_token_stream(),
                    _ => TokenStream::new(),
                };
                let ref_params = m.sig.inputs.iter().filter(|a| matches!(a, syn::FnArg::Typed(p) if matches!(p.ty.as_ref(), syn::Type::Reference(_)))).count();
                let has_receiver = matches!(m.sig.inputs.first(), Some(syn::FnArg::Receiver(_)));
                if !has_receiver && ref_params >= 2 && has_elided_ref(ret) {
                    r.fail("static-elided-return-ambiguous", &input, format!("`{}` has no receiver any more and two reference parameters, so the elided lifetime of its result is ambiguous (E0106)", tt_string(&m.sig)));
                }
            }
        });
    }

    // --- C07: a generic method implemented by an `#[entrait] impl` block
    {
        let trait_item = "trait Pair { fn pair<U: Clone>(&self, u: U) -> (U, U); }";
        let block = "impl PairImpl for X { fn pair<D, U: Clone>(deps: &D, u: U) -> (U, U) { (u.clone(), u) } }";
        let input = format!("#[entrait(PairImpl, delegate_by = DelegatePair)] {}  +  #[entrait] {}", trait_item, block);
        r.guarded(&input, |r| {
            let Some(a) = expand_ok(r, &input, "PairImpl, delegate_by = DelegatePair", trait_item) else { return };
            let Some(b) = expand_ok(r, &input, "", block) else { return };
            let Some(target) = find_trait(&a.file.items, "PairImpl") else { return };
            let Some(im) = find_impls(&b.file.items, "PairImpl").first().copied() else { return };
            let declared = target.generics.params.len();
            let args = match &im.trait_.as_ref().unwrap().1.segments.last().unwrap().arguments {
                syn::PathArguments::AngleBracketed(a) => a.args.len(),
                _ => 0,
            };
            if declared != args {
                r.fail("impl-block-method-generic-lifted", &input, format!("the delegation-target trait is `PairImpl<{}>` ({} parameter(s)) but the block implements `{}` ({} argument(s)): the method's own type parameter was lifted onto the impl (E0107)", tt_string(&target.generics.params), declared, tt_string(&im.trait_.as_ref().unwrap().1), args));
            }
        });
    }

    // --- C06 / C07: supertraits of the entraited trait must be provable for `Impl<T>`
    for attr in ["", "delegate_by = ref", "TrImpl, delegate_by = DelegateTr"] {
        let item = "trait Tr: Send + 'static { fn f(&self, o: u64) -> u64; }";
        let input = format!("#[entrait({})] {}", attr, item);
        r.guarded(&input, |r| {
            let Some(x) = expand_ok(r, &input, attr, item) else { return };
            for im in find_impls(&x.file.items, "Tr") {
                // `Impl<T>: Send` needs `T: Send`; with the default delegation `T: Tr` implies it
                let w = squash(&tt_string(&im.generics.where_clause));
                let g = squash(&tt_string(&im.generics.params));
                let provable = w.contains("EntraitT:Tr+") || w.contains("EntraitT:Tr,") || w.ends_with("EntraitT:Tr") || w.contains("marker::Send") || g.contains("marker::Send") || w.contains(":Send");
                if !provable {
                    r.fail("supertrait-not-provable", &input, format!("the trait requires `Send` of its implementors, but nothing in `impl<{}> .. {}` lets rustc prove `Impl<EntraitT>: Send` (E0277)", tt_string(&im.generics.params), tt_string(&im.generics.where_clause)));
                }
            }
        });
    }

    // --- C09: attributes written inside the trait body are attributes of the trait (regression check for fix 9c935b7)
    {
        let item = "pub trait Tr { #![allow(non_snake_case)] #![doc = \"inner\"] fn GetValue(&self) -> i32; }";
        let input = format!("#[entrait] {}", item);
        r.guarded(&input, |r| {
            let Some(x) = expand_ok(r, &input, "", item) else { return };
            let Some(t) = find_trait(&x.file.items, "Tr") else { return r.fail("no-trait", &input, "trait missing".into()) };
            let attrs: Vec<String> = t.attrs.iter().map(|a| squash(&tt_string(a))).collect();
            for want in ["allow(non_snake_case)", "doc=\"inner\""] {
                if !attrs.iter().any(|a| a.contains(want)) {
                    r.fail("trait-inner-attribute-dropped", &input, format!("`{}` written inside the trait body is gone; the trait carries {:?}", want, attrs));
                }
            }
        });
    }

    // --- C19: the selector trait uses the reserved parameter name (regression check for fix ed165fc)
    {
        let item = "trait Tr { fn f(&self); }";
        let input = format!("#[entrait(T, delegate_by = DelegateTr)] {}", item);
        r.guarded(&input, |r| {
            let Some(x) = expand_ok(r, &input, "T, delegate_by = DelegateTr", item) else { return };
            if let Some(d) = find_trait(&x.file.items, "DelegateTr") {
                let ps: Vec<String> = d.generics.params.iter().map(|p| tt_string(p)).collect();
                if ps != vec!["EntraitT".to_string()] {
                    r.fail("selector-trait-parameter-name", &input, format!("`trait DelegateTr<{}>`: a parameter name that is not reserved can shadow the user's trait", ps.join(", ")));
                }
            }
        });
    }

    // --- C13: the selector trait follows the entraited trait's visibility (regression check for fix 892ec62)
    for vis in ["", "pub", "pub(crate)"] {
        let item = format!("{} trait Tr {{ fn f(&self); }}", vis);
        let input = format!("#[entrait(TrImpl, delegate_by = DelegateTr)] {}", item);
        r.guarded(&input, |r| {
            let Some(x) = expand_ok(r, &input, "TrImpl, delegate_by = DelegateTr", &item) else { return };
            match find_trait(&x.file.items, "DelegateTr") {
                Some(d) => {
                    let want = tt_string(&syn::parse_str::<syn::Visibility>(vis).unwrap());
                    if tt_string(&d.vis) != want {
                        r.fail("selector-trait-visibility", &input, format!("DelegateTr is `{}`, the entraited trait `{}`", tt_string(&d.vis), want));
                    }
                }
                None => r.fail("no-selector-trait", &input, "DelegateTr not generated".into()),
            }
        });
    }
}

// ------------------------------------------------------------------------------------------- parsers

fn input_corners(_ctx: &Ctx, r: &mut Report) {
    r.domain = "inputs for the parsers and the module assembler that earlier contracts had not enumerated: `cfg` on a parameter, names inside a module that collide with the generated trait, macro fragments (invisible groups) as function bodies, `unsafe impl`, duplicated and comma-less options".into();
    r.bound = "fixed catalogue (listed in the contract source)".into();

    // --- C18: `#[cfg]` on a parameter: stripping the attribute must not make a disabled parameter unconditional
    for (attr, item) in [
        ("Tr", "fn f(deps: &impl A, #[cfg(any())] a: i32, b: i32) -> i32 { b }"),
        ("Tr", "mod m { pub fn f(deps: &impl A, #[cfg(any())] a: i32, b: i32) -> i32 { b } }"),
        ("", "trait Tr { fn f(&self, #[cfg(any())] a: i32, b: i32) -> i32; }"),
    ] {
        let input = format!("#[entrait({})] {}", attr, item);
        r.guarded(&input, |r| {
            let Some(x) = expand_ok(r, &input, attr, item) else { return };
            let items: &Vec<syn::Item> = mod_items(&x.file.items, "m").unwrap_or(&x.file.items);
            for im in find_impls(items, "Tr") {
                for m in impl_methods(im) {
                    let body = squash(&tt_string(&m.block));
                    // the forwarding call passes `a` although the parameter only exists under a disabled cfg
                    let unconditional = m.sig.inputs.iter().any(|p| matches!(p, syn::FnArg::Typed(pt) if tt_string(pt.pat.as_ref()) == "a" && pt.attrs.is_empty()));
                    let cfgd_in_sig = m.sig.inputs.iter().any(|p| matches!(p, syn::FnArg::Typed(pt) if tt_string(pt.pat.as_ref()) == "a" && !pt.attrs.is_empty()));
                    if unconditional || (cfgd_in_sig && (body.contains("(a,") || body.contains(",a,") || body.contains(",a)"))) {
                        r.fail("param-cfg-stripped", &input, format!("parameter `a` is `#[cfg(any())]` in the input, but the generated `{} {}` declares or forwards it unconditionally (E0061 / E0425)", tt_string(&m.sig), tt_string(&m.block)));
                    }
                }
            }
        });
    }

    // --- C08: the trait is generated inside the module: its name must not collide with the module's own names
    for item in ["mod user { pub struct User { pub id: u8 } pub fn load(deps: &impl A) -> u8 { 0 } }", "mod chain { use super::Chain as _; use super::other::User; pub fn f(deps: &impl A) {} }"] {
        let input = format!("#[entrait(pub User)] {}", item);
        r.guarded(&input, |r| {
            let out = expand(Variant::Entrait, "pub User", item);
            if compile_error_of(&out).is_some() {
                return; // a diagnostic would be a fine answer
            }
            let Ok(file) = parse_file(&out) else { return r.fail("unparsable", &input, "output does not parse".into()) };
            if let Some(syn::Item::Mod(m)) = file.items.first() {
                let its = &m.content.as_ref().unwrap().1;
                let mut n = 0;
                for it in its {
                    let name = match it {
                        syn::Item::Struct(s) => Some(s.ident.to_string()),
                        syn::Item::Trait(t) => Some(t.ident.to_string()),
                        syn::Item::Enum(e) => Some(e.ident.to_string()),
                        syn::Item::Type(t) => Some(t.ident.to_string()),
                        syn::Item::Use(u) => {
                            let s = squash(&tt_string(&u.tree));
                            if s.ends_with("::User") || s == "User" { Some("User".to_string()) } else { None }
                        }
                        _ => None,
                    };
                    if name.as_deref() == Some("User") {
                        n += 1;
                    }
                }
                if n > 1 {
                    r.fail("trait-name-clashes-inside-module", &input, "the generated trait `User` is placed inside the module, next to an item of the same name (E0428 / E0255); declared next to the module it would not collide".into());
                }
            }
        });
    }

    // --- C08 / C02: a function body that is a macro fragment (`$body:block` arrives as an invisible group)
    {
        let none = |inner: &str| -> TokenStream { std::iter::once(TokenTree::Group(proc_macro2::Group::new(Delimiter::None, ts(inner)))).collect() };
        let mut body = ts("pub fn first(deps: &impl A) -> i32");
        body.extend(none("{ 1 }"));
        body.extend(ts("pub fn second(deps: &impl A) -> i32 { 2 }"));
        let mut module = ts("mod m");
        module.extend(std::iter::once(TokenTree::Group(proc_macro2::Group::new(Delimiter::Brace, body))));
        let input = "#[entrait(Tr)] mod m { pub fn first(deps: &impl A) -> i32 <none>{ 1 }</none> pub fn second(deps: &impl A) -> i32 { 2 } }";
        r.guarded(input, |r| {
            let out = expand_ts(Variant::Entrait, ts("Tr"), module.clone());
            if let Some(e) = compile_error_of(&out) {
                return r.fail("fragment-body-not-understood", input, format!("rejected: {}", e));
            }
            let Ok(file) = parse_file(&out) else { return r.fail("fragment-body-not-understood", input, "output does not parse".into()) };
            let names: Vec<String> = mod_items(&file.items, "m").and_then(|it| find_trait(it, "Tr")).map(|t| trait_methods(t).iter().map(|m| m.sig.ident.to_string()).collect()).unwrap_or_default();
            if names != vec!["first".to_string(), "second".to_string()] {
                r.fail("fragment-body-not-understood", input, format!("trait methods {:?}: a function whose body is a macro fragment swallows the item that follows it", names));
            }
        });
    }

    // --- C02: `unsafe impl`
    {
        let item = "unsafe impl TrImpl for X { fn f<D>(deps: &D) {} }";
        let input = format!("#[entrait] {}", item);
        r.guarded(&input, |r| {
            let Some(x) = expand_ok(r, &input, "", item) else { return };
            for it in &x.file.items {
                if let syn::Item::Impl(i) = it {
                    if i.trait_.is_none() && i.unsafety.is_some() {
                        r.fail("unsafe-on-inherent-impl", &input, "`unsafe` was put on the inherent impl (E0197) instead of on the implementation of the trait".into());
                    }
                }
            }
        });
    }

    // --- C02: an inner attribute at the top of an impl block is passed through (regression check for fix 63b8e24)
    {
        let item = "impl TrImpl for X { #![allow(clippy::needless_return)] fn f<D>(deps: &D) -> u8 { return 1; } }";
        let input = format!("#[entrait] {}", item);
        r.guarded(&input, |r| {
            let Some(x) = expand_ok(r, &input, "", item) else { return };
            let kept = x.file.items.iter().any(|it| matches!(it, syn::Item::Impl(i) if i.trait_.is_none() && i.attrs.iter().chain(std::iter::empty()).count() + squash(&tt_string(i)).matches("#![allow(clippy::needless_return)]").count() > 0));
            if !kept {
                r.fail("impl-inner-attribute-dropped", &input, "the inner attribute of the impl block is not on the inherent impl".into());
            }
        });
    }

    // --- C15: a self receiver is a misuse with or without `no_deps` (regression check for fix 98663fe)
    for item in ["fn f(&self, x: i32) {}", "fn f(self: &Self, x: i32) {}", "mod m { pub fn f(self, x: i32) {} }"] {
        let input = format!("#[entrait(Tr, no_deps)] {}", item);
        r.guarded(&input, |r| {
            let out = expand(Variant::Entrait, "Tr, no_deps", item);
            match compile_error_of(&out) {
                Some(e) if e.contains("Function cannot have a self receiver") => {}
                Some(e) => r.fail("wrong-diagnostic", &input, format!("expected `Function cannot have a self receiver`, got {}", e)),
                None => r.fail("self-receiver-accepted", &input, "a method was accepted as entraited function".into()),
            }
        });
    }

    // --- C17: writing an option twice with different values: the expansion must not depend on the order
    for (a, b) in [("no_deps, no_deps = false", "no_deps = false, no_deps"), ("mockall, mockall = false", "mockall = false, mockall"), ("export, export = false", "export = false, export")] {
        let item = "fn f(x: u8) -> u8 { x }";
        let input = format!("#[entrait(Tr, {})] vs #[entrait(Tr, {})] {}", a, b, item);
        r.guarded(&input, |r| {
            let x = canon(&expand(Variant::Entrait, &format!("Tr, {}", a), item));
            let y = canon(&expand(Variant::Entrait, &format!("Tr, {}", b), item));
            if x != y && !(x.contains("compile_error") && y.contains("compile_error")) {
                r.fail("duplicate-option-last-wins", &input, "the same option set in two orders expands differently: a repeated option is accepted and the last occurrence wins".into());
            }
        });
    }

    // --- C15: a missing comma in the option list
    for (attr, item) in [("TrImpl delegate_by = DelegateTr", "trait Tr { fn f(&self); }"), ("ref debug = false", "impl TrImpl for X { fn f<D>(deps: &D) {} }")] {
        let input = format!("#[entrait({})] {}", attr, item);
        r.guarded(&input, |r| {
            let out = expand(Variant::Entrait, attr, item);
            if compile_error_of(&out).is_none() {
                r.fail("missing-comma-accepted", &input, "an option list with a missing comma is accepted without a diagnostic".into());
            }
        });
    }
}
