//! Bounded contract replay (E2): executable contracts evaluated on the REAL functions of
//! entrait_macros over exhaustively enumerated bounded input domains.
//! A labelled stand-in: nothing here is counted as proved.
#![allow(dead_code, unused_imports, clippy::all)]

use proc_macro2::{Delimiter, TokenStream, TokenTree};
use std::collections::BTreeSet;
use std::panic::{catch_unwind, AssertUnwindSafe};

pub mod conformance;
pub mod c_assemble;
pub mod c_opts;
pub mod c_params;
pub mod c_sig;
pub mod c_trait;
pub mod c_input;
pub mod c_grammar;
pub mod c_corner;

#[derive(Clone, Copy, PartialEq, Eq)]
pub enum Tier {
    Quick,
    Thorough,
}

pub struct Ctx {
    pub tier: Tier,
    pub only_case: Option<String>,
}

pub struct Failure {
    pub class: String,
    pub input: String,
    pub message: String,
}

pub struct Report {
    pub name: &'static str,
    pub function: &'static str,
    pub props: &'static [&'static str],
    pub domain: String,
    pub bound: String,
    pub cases: u64,
    pub distinct: BTreeSet<String>,
    pub failures: Vec<Failure>,
    pub samples: Vec<String>,
    pub exhaustive: bool,
    only_case: Option<String>,
    /// the property whose check is running (failed oracles of multi-property contracts are attributed, see class_relevant)
    check_prop: String,
}

impl Report {
    /// register one enumerated input; returns false if a `--case` filter excludes it
    pub fn case(&mut self, input: &str) -> bool {
        if let Some(c) = &self.only_case {
            if c != input {
                return false;
            }
        }
        self.cases += 1;
        if self.distinct.insert(input.to_string()) && self.samples.len() < 3 {
            self.samples.push(input.to_string());
        }
        true
    }
    pub fn fail(&mut self, class: &str, input: &str, message: String) {
        if !self.check_prop.is_empty() && !class_relevant(self.name, class, &self.check_prop) {
            return;
        }
        // keep one representative per class and at most 25 in total
        if self.failures.len() < 25 && self.failures.iter().filter(|f| f.class == class).count() < 3 {
            self.failures.push(Failure { class: class.to_string(), input: input.to_string(), message });
        }
    }
    /// run `f` for one input, turning a panic of the code under test into a contract failure
    pub fn guarded<F: FnOnce(&mut Report)>(&mut self, input: &str, f: F) {
        self.guarded_with(input, "panic", f)
    }
    /// like `guarded`, with the failure class to use if the code under test panics
    pub fn guarded_with<F: FnOnce(&mut Report)>(&mut self, input: &str, panic_class: &str, f: F) {
        if !self.case(input) {
            return;
        }
        let res = catch_unwind(AssertUnwindSafe(|| {
            let mut tmp = Report::new(self.name, self.function, self.props, None);
            tmp.check_prop = self.check_prop.clone();
            f(&mut tmp);
            tmp
        }));
        match res {
            Ok(tmp) => {
                for fl in tmp.failures {
                    self.fail(&fl.class, &fl.input, fl.message);
                }
            }
            Err(e) => {
                let msg = e.downcast_ref::<String>().cloned().or_else(|| e.downcast_ref::<&str>().map(|s| s.to_string())).unwrap_or_default();
                self.fail(panic_class, input, format!("the code under test panicked: {}", msg));
            }
        }
    }
    fn new(name: &'static str, function: &'static str, props: &'static [&'static str], only_case: Option<String>) -> Self {
        Report {
            name,
            function,
            props,
            domain: String::new(),
            bound: String::new(),
            cases: 0,
            distinct: BTreeSet::new(),
            failures: vec![],
            samples: vec![],
            exhaustive: true,
            only_case,
            check_prop: String::new(),
        }
    }
}

pub type ContractFn = fn(&Ctx, &mut Report);

pub struct Contract {
    pub name: &'static str,
    pub function: &'static str,
    pub props: &'static [&'static str],
    pub run: ContractFn,
}

// ------------------------------------------------------------------------------------ helpers

pub fn ts(s: &str) -> TokenStream {
    s.parse::<TokenStream>().unwrap_or_else(|e| panic!("harness: cannot lex `{}`: {}", s, e))
}

/// canonical text of a token stream (spans dropped, spacing normalised by proc-macro2's printer)
pub fn canon(t: &TokenStream) -> String {
    t.to_string()
}

#[derive(Clone, Copy, PartialEq, Eq, Debug)]
pub enum Variant {
    Entrait,
    Export,
    Unimock,
    ExportUnimock,
}

impl Variant {
    pub fn name(self) -> &'static str {
        match self {
            Variant::Entrait => "entrait",
            Variant::Export => "entrait_export",
            Variant::Unimock => "entrait_unimock",
            Variant::ExportUnimock => "entrait_export_unimock",
        }
    }
    pub const ALL: [Variant; 4] = [Variant::Entrait, Variant::Export, Variant::Unimock, Variant::ExportUnimock];
}

/// run the real macro entry point (lib.rs after rewrite R1)
pub fn expand(v: Variant, attr: &str, item: &str) -> TokenStream {
    let (a, i) = (ts(attr), ts(item));
    match v {
        Variant::Entrait => crate::entrait(a, i),
        Variant::Export => crate::entrait_export(a, i),
        Variant::Unimock => crate::entrait_unimock(a, i),
        Variant::ExportUnimock => crate::entrait_export_unimock(a, i),
    }
}

pub fn expand_ts(v: Variant, a: TokenStream, i: TokenStream) -> TokenStream {
    match v {
        Variant::Entrait => crate::entrait(a, i),
        Variant::Export => crate::entrait_export(a, i),
        Variant::Unimock => crate::entrait_unimock(a, i),
        Variant::ExportUnimock => crate::entrait_export_unimock(a, i),
    }
}

/// `Some(message)` if the stream is (or contains at top level) a `compile_error!` invocation
pub fn compile_error_of(t: &TokenStream) -> Option<String> {
    let v: Vec<TokenTree> = t.clone().into_iter().collect();
    for (i, tt) in v.iter().enumerate() {
        if let TokenTree::Ident(id) = tt {
            if id == "compile_error" {
                if let Some(TokenTree::Group(g)) = v.get(i + 2) {
                    return Some(g.stream().to_string());
                }
                return Some(String::new());
            }
        }
    }
    None
}

pub fn parse_file(t: &TokenStream) -> Result<syn::File, String> {
    syn::parse2::<syn::File>(t.clone()).map_err(|e| format!("output does not parse as items: {}", e))
}

pub fn find_trait<'a>(items: &'a [syn::Item], name: &str) -> Option<&'a syn::ItemTrait> {
    items.iter().find_map(|it| match it {
        syn::Item::Trait(t) if t.ident == name => Some(t),
        _ => None,
    })
}

/// all `impl <Trait> for ..` blocks whose trait path ends in `name`
pub fn find_impls<'a>(items: &'a [syn::Item], name: &str) -> Vec<&'a syn::ItemImpl> {
    items
        .iter()
        .filter_map(|it| match it {
            syn::Item::Impl(i) => match &i.trait_ {
                Some((_, p, _)) if p.segments.last().map(|s| s.ident == name).unwrap_or(false) => Some(i),
                _ => None,
            },
            _ => None,
        })
        .collect()
}

pub fn mod_items<'a>(items: &'a [syn::Item], name: &str) -> Option<&'a Vec<syn::Item>> {
    items.iter().find_map(|it| match it {
        syn::Item::Mod(m) if m.ident == name => m.content.as_ref().map(|c| &c.1),
        _ => None,
    })
}

/// structural equality of token streams (spans and spacing ignored)
pub fn ts_eq(a: &TokenStream, b: &TokenStream) -> bool {
    let (x, y): (Vec<TokenTree>, Vec<TokenTree>) = (a.clone().into_iter().collect(), b.clone().into_iter().collect());
    x.len() == y.len() && x.iter().zip(y.iter()).all(|(p, q)| tt_eq(p, q))
}

pub fn tt_eq(a: &TokenTree, b: &TokenTree) -> bool {
    match (a, b) {
        (TokenTree::Group(g), TokenTree::Group(h)) => g.delimiter() == h.delimiter() && ts_eq(&g.stream(), &h.stream()),
        (TokenTree::Ident(i), TokenTree::Ident(j)) => i == j,
        (TokenTree::Punct(p), TokenTree::Punct(q)) => p.as_char() == q.as_char(),
        (TokenTree::Literal(l), TokenTree::Literal(m)) => l.to_string() == m.to_string(),
        _ => false,
    }
}

/// `want` is a structural prefix of `got`
pub fn ts_prefix(want: &TokenStream, got: &TokenStream) -> Option<usize> {
    let (x, y): (Vec<TokenTree>, Vec<TokenTree>) = (want.clone().into_iter().collect(), got.clone().into_iter().collect());
    for i in 0..x.len() {
        match y.get(i) {
            Some(t) if tt_eq(&x[i], t) => {}
            _ => return Some(i),
        }
    }
    None
}

pub fn tt_string<T: quote::ToTokens>(x: &T) -> String {
    x.to_token_stream().to_string()
}

/// cartesian product helper: all sequences of length `n` over `alphabet` indices
pub fn sequences(alphabet: usize, n: usize) -> Vec<Vec<usize>> {
    let mut out = vec![vec![]];
    for _ in 0..n {
        let mut next = vec![];
        for p in &out {
            for a in 0..alphabet {
                let mut q = p.clone();
                q.push(a);
                next.push(q);
            }
        }
        out = next;
    }
    out
}

pub fn subsets(n: usize) -> Vec<Vec<usize>> {
    (0..(1usize << n)).map(|m| (0..n).filter(|i| m & (1 << i) != 0).collect()).collect()
}

pub fn permutations(v: &[usize]) -> Vec<Vec<usize>> {
    if v.len() <= 1 {
        return vec![v.to_vec()];
    }
    let mut out = vec![];
    for i in 0..v.len() {
        let mut rest = v.to_vec();
        let x = rest.remove(i);
        for mut p in permutations(&rest) {
            p.insert(0, x);
            out.push(p);
        }
    }
    out
}

fn jesc(s: &str) -> String {
    let mut o = String::from("\"");
    for c in s.chars() {
        match c {
            '"' => o.push_str("\\\""),
            '\\' => o.push_str("\\\\"),
            '\n' => o.push_str("\\n"),
            '\r' => o.push_str("\\r"),
            '\t' => o.push_str("\\t"),
            c if (c as u32) < 0x20 => o.push_str(&format!("\\u{:04x}", c as u32)),
            c => o.push(c),
        }
    }
    o.push('"');
    o
}

/// Attribution of the multi-property contracts: the cross-product and corner-case contracts run one battery of
/// oracles per expansion; a failed oracle is reported under the properties its statement belongs to, not under
/// every property whose check happens to run the contract. Classes that are not listed concern every property
/// (the expansion is rejected, does not parse, panics, or has the wrong overall shape).
pub fn class_relevant(contract: &str, class: &str, prop: &str) -> bool {
    // a few per-property contracts are run by several checks as well
    if contract == "c16_param_names" && prop == "C15" {
        return class == "panic"; // C15 only asks that nothing panics; the names themselves are C16 / C01
    }
    if contract == "c04_impl_header_bounds" && prop == "C19" {
        return matches!(class, "thread-safety-bounds" | "impl-generics" | "unexpected-error" | "unparsable"); // C19 is about the spelling of the fixed bounds
    }
    if contract == "c07_dependency_inversion" && class == "relative-macro-path" {
        return prop == "C19"; // the spelling of macro-owned paths is C19's statement alone
    }
    if contract == "c07_dependency_inversion" && prop == "C19" {
        return matches!(class, "inversion-call" | "block-call" | "selector-bound" | "impl-receiver" | "target-receiver-typed-self" | "further-dependencies" | "target-generics" | "selector-trait" | "unexpected-error" | "unparsable"); // the spelled-out paths and reserved names
    }
    if contract == "c13_trait_visibility" && prop == "C08" {
        return !matches!(class, "target-trait-visibility"); // C08 is about modules; the delegation-target trait belongs to C13
    }
    if !(contract.starts_with("cx_") || contract.starts_with("cz_")) {
        return true;
    }
    let props: &[&str] = match class {
        "fn-not-a-prefix" | "module-not-first" | "module-header" | "module-items" | "inherent-impl" | "unsafe-on-inherent-impl" | "impl-inner-attribute-dropped" => &["C02"],
        "trait-visibility" | "re-export" => &["C13", "C08"],
        "target-trait-visibility" | "selector-trait-visibility" => &["C13"],
        "method-count" => &["C01", "C03", "C06", "C07", "C08", "C09"],
        "visibility" => &["C09", "C13"],
        "trait-generics" => &["C03", "C05", "C09"],
        "method-generics" | "predicate-dropped" | "predicate-added" | "impl-where" | "parameter-types" | "return-type" | "qualifiers" | "trait-arguments" | "module-generic-name-clash"
        | "nodeps-elided-return-rebinds" | "undeclared-lifetime-in-header" | "uninferable-generic-not-forwarded" | "deps-generic-still-referenced" | "where-clause-split" | "relaxed-where-on-method"
        | "module-sibling-generic" | "impl-header-lifetime-after-type" | "impl-header-default" => &["C03", "C06", "C09"],
        "deps-predicate-kept" => &["C01", "C03", "C04", "C07"],
        "mock-attributes" => &["C10", "C17"],
        "nested-attribute" | "blanket-generic" | "by-value-through-as-ref" | "impl-trait-in-header" | "fragment-dependency-taken-as-concrete" => &["C05", "C03"],
        "async-trait-reapplied" | "impl-attributes" => &["C12", "C18"],
        "foreign-attribute-on-trait" | "mirrored-attributes" | "target-trait-method-attributes" | "param-cfg-stripped" | "generic-param-cfg" => &["C18"],
        "trait-attributes" | "method-attributes" | "trait-inner-attribute-dropped" | "trait-header" | "method-signature" => &["C09", "C18"],
        "pattern-left" | "name-clash" | "renamed" | "raw-identifier-shadows-function" | "raw-identifier-bound-twice" => &["C16", "C01", "C03"],
        "receiver" | "target-receiver" | "deps-lifetime-lost" | "wrapped-reference-dependency-by-value" | "dyn-elided-borrow-from-deps" | "static-elided-return-ambiguous" | "impl-block-method-generic-lifted" => &["C01", "C03", "C04", "C07"],
        "async-signature" | "target-async" | "target-send-bound" | "never-type-in-output" => &["C12", "C19"],
        "await" => &["C12", "C01"],
        "self-type" => &["C04", "C05", "C06", "C10"],
        "thread-safety-bounds" | "fixed-bounds" | "relaxed-bound-required" => &["C04", "C06", "C19"],
        "bounds-mismatch" => &["C04", "C01", "C07"],
        "unimock-parameters" => &["C11"],
        "method-name" | "arity" | "body-shape" | "callee" | "arguments" | "forwarding-call" | "forwarding-call-ambiguous" => &["C01", "C06", "C07", "C19"],
        "method-list" | "fragment-body-not-understood" => &["C08", "C01", "C03"],
        "trait-name-clashes-inside-module" => &["C08"],
        "provider-bound" | "provider-extra-bounds" | "supertrait-not-provable" => &["C06", "C07", "C19"],
        "target-method-count" => &["C07"],
        "selector-trait-parameter-name" => &["C07", "C19"],
        "duplicate-option-last-wins" => &["C17"],
        "missing-comma-accepted" | "self-receiver-accepted" | "wrong-diagnostic" => &["C15"],
        _ => return true,
    };
    props.contains(&prop)
}

pub fn all_contracts() -> Vec<Contract> {
    let mut v = vec![];
    v.extend(c_opts::contracts());
    v.extend(c_assemble::contracts());
    v.extend(c_params::contracts());
    v.extend(c_sig::contracts());
    v.extend(c_trait::contracts());
    v.extend(c_input::contracts());
    v.extend(c_grammar::contracts());
    v.extend(c_corner::contracts());
    v
}

pub fn main() {
    let args: Vec<String> = std::env::args().collect();
    let get = |k: &str| args.iter().position(|a| a == k).and_then(|i| args.get(i + 1)).cloned();
    // `--expand <attr> <item>`: print the real expansion of one input (used by `vx replay` to show the output)
    if let Some(i) = args.iter().position(|a| a == "--expand") {
        let out = expand(Variant::Entrait, args.get(i + 1).map(|s| s.as_str()).unwrap_or(""), args.get(i + 2).map(|s| s.as_str()).unwrap_or(""));
        match syn::parse2::<syn::File>(out.clone()) {
            Ok(f) => {
                for it in f.items {
                    println!("{}\n", tt_string(&it));
                }
            }
            Err(_) => println!("{}", out),
        }
        return;
    }
    let prop = get("--prop").unwrap_or_default();
    let tier = if get("--tier").as_deref() == Some("thorough") { Tier::Thorough } else { Tier::Quick };
    let out = get("--out").unwrap_or_else(|| "result.json".into());
    let only = get("--only").filter(|s| !s.is_empty());
    let case = get("--case").filter(|s| !s.is_empty());
    std::panic::set_hook(Box::new(|_| {}));
    let ctx = Ctx { tier, only_case: case.clone() };

    let mut reports = vec![];
    for c in all_contracts() {
        if !c.props.contains(&prop.as_str()) {
            continue;
        }
        if let Some(o) = &only {
            if o != c.name {
                continue;
            }
        }
        let mut r = Report::new(c.name, c.function, c.props, case.clone());
        if case.is_none() {
            r.check_prop = prop.clone();
        }
        let res = catch_unwind(AssertUnwindSafe(|| (c.run)(&ctx, &mut r)));
        if let Err(e) = res {
            let msg = e.downcast_ref::<String>().cloned().or_else(|| e.downcast_ref::<&str>().map(|s| s.to_string())).unwrap_or_default();
            r.fail("harness-panic", "", format!("panic outside a guarded case: {}", msg));
        }
        reports.push(r);
    }
    let conf = conformance::run();

    let mut j = String::from("{\n \"contracts\": [\n");
    for (i, r) in reports.iter().enumerate() {
        j.push_str(&format!(
            "  {{\"name\": {}, \"function\": {}, \"domain\": {}, \"bound\": {}, \"cases\": {}, \"distinct\": {}, \"exhaustive\": {}, \"samples\": [{}], \"failures\": [{}]}}{}\n",
            jesc(r.name),
            jesc(r.function),
            jesc(&r.domain),
            jesc(&r.bound),
            r.cases,
            r.distinct.len(),
            r.exhaustive,
            r.samples.iter().map(|s| jesc(s)).collect::<Vec<_>>().join(", "),
            r.failures
                .iter()
                .map(|f| format!("{{\"class\": {}, \"input\": {}, \"message\": {}}}", jesc(&f.class), jesc(&f.input), jesc(&f.message)))
                .collect::<Vec<_>>()
                .join(", "),
            if i + 1 < reports.len() { "," } else { "" }
        ));
    }
    j.push_str(&format!(
        " ],\n \"conformance\": {{\"facts_checked\": {}, \"facts_failed\": {}, \"failed\": [{}]}}\n}}\n",
        conf.0,
        conf.1.len(),
        conf.1.iter().map(|s| jesc(s)).collect::<Vec<_>>().join(", ")
    ));
    std::fs::write(&out, j).expect("write result");
    for r in &reports {
        println!("{}: {} cases, {} distinct, {} failure(s)", r.name, r.cases, r.distinct.len(), r.failures.len());
        for f in &r.failures {
            println!("   FAIL [{}] {} :: {}", f.class, f.input, f.message);
        }
    }
}
