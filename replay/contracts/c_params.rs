//! C16: generated parameter names, exhaustive to the property's own small-scope bound.
use super::*;

pub fn contracts() -> Vec<Contract> {
    vec![Contract { name: "c16_param_names", function: "signature/fn_params.rs::fix_fn_param_idents (+ fix_ident_conflicts, lift_inner_pat_idents, autogenerate_for_non_idents)", props: &["C16", "C01", "C15"], run: c16 }]
}

struct Sym {
    pat: &'static str,
    /// plain binding: keeps this name (None for non-plain patterns)
    plain: Option<&'static str>,
    /// destructuring pattern with exactly one binding: takes this name
    single: Option<&'static str>,
}

const ALPHABET: [Sym; 17] = [
    Sym { pat: "mut foo", plain: Some("foo"), single: None }, // binding mode on a parameter named like the function
    Sym { pat: "ref foo", plain: Some("foo"), single: None },
    Sym { pat: "a", plain: Some("a"), single: None },
    Sym { pat: "mut m", plain: Some("m"), single: None },
    Sym { pat: "ref r", plain: Some("r"), single: None },
    Sym { pat: "r#type", plain: Some("r#type"), single: None },
    Sym { pat: "_", plain: None, single: None },
    Sym { pat: "(p, q)", plain: None, single: None },
    Sym { pat: "N(n)", plain: None, single: Some("n") },
    Sym { pat: "N(k, _)", plain: None, single: Some("k") },
    Sym { pat: "S { s }", plain: None, single: Some("s") },
    Sym { pat: "&amp", plain: None, single: Some("amp") },
    Sym { pat: "foo", plain: Some("foo"), single: None },  // the function's own name
    Sym { pat: "foo_", plain: Some("foo_"), single: None }, // what `foo` would be renamed to
    Sym { pat: "arg1", plain: Some("arg1"), single: None }, // a would-be generated name
    Sym { pat: "_arg0", plain: Some("_arg0"), single: None },
    Sym { pat: "W(foo)", plain: None, single: Some("foo") }, // single binding equal to the fn name
];

fn c16(ctx: &Ctx, r: &mut Report) {
    let max = if ctx.tier == Tier::Thorough { 6 } else { 4 };
    r.domain = "all lists of irrefutable parameter patterns over {a, mut m, ref r, r#type, _, (p,q), N(n), N(k,_), S{s}, &amp, foo (= fn name), mut foo, ref foo, foo_, arg1, _arg0, W(foo)} for `fn foo`, with and without a leading receiver; a symbol is not repeated (bindings must be distinct in valid Rust) except `_`".into();
    r.bound = format!("list length 0..{}", max);
    for n in 0..=max {
        for seq in sequences(ALPHABET.len(), n) {
            // valid Rust: no binding name twice
            let mut names: Vec<&str> = vec![];
            let mut dup = false;
            for s in &seq {
                let sym = &ALPHABET[*s];
                for nm in sym.plain.iter().chain(sym.single.iter()) {
                    if names.contains(nm) {
                        dup = true;
                    }
                    names.push(nm);
                }
                if sym.pat == "(p, q)" {
                    if names.contains(&"p") {
                        dup = true;
                    }
                    names.push("p");
                    names.push("q");
                }
            }
            if dup {
                continue;
            }
            for recv in [false, true] {
                if recv && n > 3 {
                    continue;
                }
                let mut params: Vec<String> = vec![];
                if recv {
                    params.push("&self".into());
                }
                for (i, s) in seq.iter().enumerate() {
                    params.push(format!("{}: T{}", ALPHABET[*s].pat, i));
                }
                let src = format!("fn foo({})", params.join(", "));
                r.guarded(&src, |r| {
                    let mut sig: syn::Signature = syn::parse_str(&src).unwrap();
                    crate::signature::vx_glue::fix_fn_param_idents(&mut sig);
                    let typed: Vec<&syn::PatType> = sig.inputs.iter().filter_map(|a| if let syn::FnArg::Typed(p) = a { Some(p) } else { None }).collect();
                    if typed.len() != seq.len() || sig.inputs.len() != params.len() {
                        r.fail("arity-changed", &src, format!("{} parameters became {}", params.len(), sig.inputs.len()));
                        return;
                    }
                    let mut out_names: Vec<String> = vec![];
                    for (i, p) in typed.iter().enumerate() {
                        if tt_string(&p.ty) != format!("T{}", i) {
                            r.fail("type-changed", &src, format!("parameter {} has type {}", i, tt_string(&p.ty)));
                        }
                        match p.pat.as_ref() {
                            syn::Pat::Ident(pi) => {
                                if pi.by_ref.is_some() || pi.mutability.is_some() || pi.subpat.is_some() {
                                    r.fail("not-plain-identifier", &src, format!("parameter {} is `{}`, not a plain identifier", i, tt_string(pi)));
                                }
                                out_names.push(pi.ident.to_string());
                            }
                            other => {
                                r.fail("not-an-identifier", &src, format!("parameter {} is still the pattern `{}`", i, tt_string(other)));
                                out_names.push(format!("<pattern {}>", i));
                            }
                        }
                    }
                    for i in 0..out_names.len() {
                        for j in 0..i {
                            if out_names[i] == out_names[j] {
                                r.fail("duplicate-name", &src, format!("parameters {} and {} are both named `{}`", j, i, out_names[i]));
                            }
                        }
                        if out_names[i] == "foo" {
                            r.fail("shadows-function", &src, format!("parameter {} is named `foo` and shadows the function the method must call", i));
                        }
                    }
                    for (i, s) in seq.iter().enumerate() {
                        let sym = &ALPHABET[*s];
                        if let Some(nm) = sym.plain {
                            if nm != "foo" && out_names[i] != nm {
                                r.fail("plain-binding-renamed", &src, format!("plain binding `{}` became `{}`", nm, out_names[i]));
                            }
                        }
                        if let Some(nm) = sym.single {
                            if nm != "foo" && out_names[i] != nm {
                                r.fail("single-binding-not-lifted", &src, format!("pattern `{}` should take the name `{}`, got `{}`", sym.pat, nm, out_names[i]));
                            }
                        }
                    }
                });
            }
        }
    }
}
