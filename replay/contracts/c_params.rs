//! C16: generated parameter names, exhaustive to the property's own small-scope bound.
use super::*;

pub fn contracts() -> Vec<Contract> {
    vec![
        Contract { name: "c16_stage_contracts", function: "signature/fn_params.rs::{fix_ident_conflicts, lift_inner_pat_idents, autogenerate_for_non_idents} - the contracts the E1 proof of fix_fn_param_idents assumes", props: &["C16", "C01"], run: c16_stages },
        Contract { name: "c16_param_names", function: "signature/fn_params.rs::fix_fn_param_idents (+ fix_ident_conflicts, lift_inner_pat_idents, autogenerate_for_non_idents)", props: &["C16", "C01", "C15"], run: c16 },
    ]
}

struct Sym {
    pat: &'static str,
    /// plain binding: keeps this name (None for non-plain patterns)
    plain: Option<&'static str>,
    /// destructuring pattern with exactly one binding: takes this name
    single: Option<&'static str>,
}

const ALPHABET: [Sym; 18] = [
    Sym { pat: "W(foo_)", plain: None, single: Some("foo_") }, // single binding equal to what `foo` would be renamed to
    Sym { pat: "mut foo", plain: Some("foo"), single: None }, // binding mode on a parameter named like the function
    Sym { pat: "ref foo", plain: Some("foo"), single: None },
    Sym { pat: "a", plain: Some("a"), single: None },
    Sym { pat: "mut m", plain: Some("m"), single: None },
    Sym { pat: "ref r", plain: Some("r"), single: None },
    Sym { pat: "r#type", plain: Some("r#type"), single: None },
    Sym { pat: "_", plain: None, single: None },
    Sym { pat: "(p, q)", plain: None, single: None },
    Sym { pat: "N(n)", plain: None, single: Some("n") },
    Sym { pat: "N(k, _)", plain: None, single: Some("k") },
    Sym { pat: "S { s }", plain: None, single: Some("s") },
    Sym { pat: "&amp", plain: None, single: Some("amp") },
    Sym { pat: "foo", plain: Some("foo"), single: None },  // the function's own name
    Sym { pat: "foo_", plain: Some("foo_"), single: None }, // what `foo` would be renamed to
    Sym { pat: "arg1", plain: Some("arg1"), single: None }, // a would-be generated name
    Sym { pat: "_arg0", plain: Some("_arg0"), single: None },
    Sym { pat: "W(foo)", plain: None, single: Some("foo") }, // single binding equal to the fn name
];

fn c16(ctx: &Ctx, r: &mut Report) {
    let max = if ctx.tier == Tier::Thorough { 6 } else { 4 };
    r.domain = "all lists of irrefutable parameter patterns over {a, mut m, ref r, r#type, _, (p,q), N(n), N(k,_), S{s}, &amp, foo (= fn name), mut foo, ref foo, foo_, arg1, _arg0, W(foo), W(foo_)} for `fn foo`, with and without a leading receiver; a symbol is not repeated (bindings must be distinct in valid Rust) except `_`".into();
    r.bound = format!("list length 0..{}", max);
    for n in 0..=max {
        for seq in sequences(ALPHABET.len(), n) {
            // valid Rust: no binding name twice
            let mut names: Vec<&str> = vec![];
            let mut dup = false;
            for s in &seq {
                let sym = &ALPHABET[*s];
                for nm in sym.plain.iter().chain(sym.single.iter()) {
                    if names.contains(nm) {
                        dup = true;
                    }
                    names.push(nm);
                }
                if sym.pat == "(p, q)" {
                    if names.contains(&"p") {
                        dup = true;
                    }
                    names.push("p");
                    names.push("q");
                }
            }
            if dup {
                continue;
            }
            for recv in [false, true] {
                if recv && n > 3 {
                    continue;
                }
                let mut params: Vec<String> = vec![];
                if recv {
                    params.push("&self".into());
                }
                for (i, s) in seq.iter().enumerate() {
                    params.push(format!("{}: T{}", ALPHABET[*s].pat, i));
                }
                let src = format!("fn foo({})", params.join(", "));
                r.guarded(&src, |r| {
                    let mut sig: syn::Signature = syn::parse_str(&src).unwrap();
                    crate::signature::vx_glue::fix_fn_param_idents(&mut sig);
                    let typed: Vec<&syn::PatType> = sig.inputs.iter().filter_map(|a| if let syn::FnArg::Typed(p) = a { Some(p) } else { None }).collect();
                    if typed.len() != seq.len() || sig.inputs.len() != params.len() {
                        r.fail("arity-changed", &src, format!("{} parameters became {}", params.len(), sig.inputs.len()));
                        return;
                    }
                    let mut out_names: Vec<String> = vec![];
                    for (i, p) in typed.iter().enumerate() {
                        if tt_string(&p.ty) != format!("T{}", i) {
                            r.fail("type-changed", &src, format!("parameter {} has type {}", i, tt_string(&p.ty)));
                        }
                        match p.pat.as_ref() {
                            syn::Pat::Ident(pi) => {
                                if pi.by_ref.is_some() || pi.mutability.is_some() || pi.subpat.is_some() {
                                    r.fail("not-plain-identifier", &src, format!("parameter {} is `{}`, not a plain identifier", i, tt_string(pi)));
                                }
                                out_names.push(pi.ident.to_string());
                            }
                            other => {
                                r.fail("not-an-identifier", &src, format!("parameter {} is still the pattern `{}`", i, tt_string(other)));
                                out_names.push(format!("<pattern {}>", i));
                            }
                        }
                    }
                    for i in 0..out_names.len() {
                        for j in 0..i {
                            if out_names[i] == out_names[j] {
                                r.fail("duplicate-name", &src, format!("parameters {} and {} are both named `{}`", j, i, out_names[i]));
                            }
                        }
                        if out_names[i] == "foo" {
                            r.fail("shadows-function", &src, format!("parameter {} is named `foo` and shadows the function the method must call", i));
                        }
                    }
                    for (i, s) in seq.iter().enumerate() {
                        let sym = &ALPHABET[*s];
                        if let Some(nm) = sym.plain {
                            if nm != "foo" && out_names[i] != nm {
                                r.fail("plain-binding-renamed", &src, format!("plain binding `{}` became `{}`", nm, out_names[i]));
                            }
                        }
                        if let Some(nm) = sym.single {
                            if nm != "foo" && out_names[i] != nm {
                                r.fail("single-binding-not-lifted", &src, format!("pattern `{}` should take the name `{}`, got `{}`", sym.pat, nm, out_names[i]));
                            }
                        }
                    }
                });
            }
        }
    }
}

// ---- the assumed contracts of contracts/fn_params.vspec, made executable

fn all_plain(sig: &syn::Signature) -> bool {
    sig.inputs.iter().all(|a| match a {
        syn::FnArg::Typed(pt) => matches!(pt.pat.as_ref(), syn::Pat::Ident(_)),
        syn::FnArg::Receiver(_) => true,
    })
}

fn no_conflict(sig: &syn::Signature) -> bool {
    sig.inputs.iter().all(|a| match a {
        syn::FnArg::Typed(pt) => match pt.pat.as_ref() {
            syn::Pat::Ident(pi) => pi.ident != sig.ident,
            _ => true,
        },
        syn::FnArg::Receiver(_) => true,
    })
}

fn same_shape(a: &syn::Signature, b: &syn::Signature) -> bool {
    a.ident == b.ident
        // frame: a stage renames parameters and touches nothing else of the signature
        && a.asyncness.is_some() == b.asyncness.is_some()
        && a.unsafety.is_some() == b.unsafety.is_some()
        && a.constness.is_some() == b.constness.is_some()
        && a.abi.as_ref().map(tt_string) == b.abi.as_ref().map(tt_string)
        && tt_string(&a.generics) == tt_string(&b.generics)
        && a.generics.where_clause.as_ref().map(tt_string) == b.generics.where_clause.as_ref().map(tt_string)
        && tt_string(&a.output) == tt_string(&b.output)
        && a.inputs.len() == b.inputs.len()
        && a.inputs.iter().zip(b.inputs.iter()).all(|(x, y)| match (x, y) {
            (syn::FnArg::Typed(p), syn::FnArg::Typed(q)) => tt_string(&p.ty) == tt_string(&q.ty),
            (syn::FnArg::Receiver(p), syn::FnArg::Receiver(q)) => tt_string(p) == tt_string(q),
            _ => false,
        })
}

/// the contracts E1 assumes for the three stages, checked on the real functions - on every enumerated signature and on
/// every intermediate signature the real pipeline passes from one stage to the next
fn c16_stages(ctx: &Ctx, r: &mut Report) {
    use crate::signature::vx_glue::stages;
    let max = if ctx.tier == Tier::Thorough { 4 } else { 3 };
    r.domain = "the pattern lists of c16_param_names (17-symbol alphabet, fn foo), with and without a leading receiver; each stage is run on the enumerated signature and on the outputs of the stages before it".into();
    r.bound = format!("list length 0..{}", max);
    if !stages::AVAILABLE {
        r.domain = "NOT REPLAYED: the stage functions fix_ident_conflicts / lift_inner_pat_idents / autogenerate_for_non_idents were not found under these names and signatures in this tree; the contracts assumed for them by the E1 proof of fix_fn_param_idents stay untested assumptions in this run".into();
        r.exhaustive = false;
        return;
    }
    for n in 0..=max {
        for seq in sequences(ALPHABET.len(), n) {
            let mut names: Vec<&str> = vec![];
            let mut dup = false;
            for s in &seq {
                let sym = &ALPHABET[*s];
                for nm in sym.plain.iter().chain(sym.single.iter()) {
                    dup |= names.contains(nm);
                    names.push(nm);
                }
                if sym.pat == "(p, q)" {
                    dup |= names.contains(&"p");
                    names.push("p");
                    names.push("q");
                }
            }
            if dup {
                continue;
            }
            for recv in [false, true] {
                if recv && n > 2 {
                    continue;
                }
                let mut params: Vec<String> = vec![];
                if recv {
                    params.push("&self".into());
                }
                for (i, s) in seq.iter().enumerate() {
                    params.push(format!("{}: T{}", ALPHABET[*s].pat, i));
                }
                // the frame of the stage contracts is exercised on a header that has something to lose
                let headers: &[(&str, &str)] = if n <= 2 { &[("fn foo", ""), ("async unsafe fn foo<'a, G: Clone>", " -> Vec<&'a G> where G: Send")] } else { &[("fn foo", "")] };
                for (head, rest) in headers {
                let src = format!("{}({}){}", head, params.join(", "), rest);
                r.guarded(&src, |r| {
                    let s0: syn::Signature = syn::parse_str(&src).unwrap();
                    let fix = |r: &mut Report, before: &syn::Signature, at: &str| -> syn::Signature {
                        let mut after = before.clone();
                        let ok = stages::fix_ident_conflicts(&mut after);
                        if ok != all_plain(&after) {
                            r.fail("fix-status", &src, format!("{}: fix_ident_conflicts returned {} but the parameters are {}all plain identifiers: `{}`", at, if ok { "Ok" } else { "NeedsFix" }, if all_plain(&after) { "" } else { "not " }, tt_string(&after)));
                        }
                        if all_plain(before) && !all_plain(&after) {
                            r.fail("fix-unplains", &src, format!("{}: fix_ident_conflicts turned an identifier into a pattern: `{}`", at, tt_string(&after)));
                        }
                        if !no_conflict(&after) {
                            r.fail("fix-leaves-conflict", &src, format!("{}: after fix_ident_conflicts a parameter is still named like the function: `{}`", at, tt_string(&after)));
                        }
                        if !same_shape(before, &after) {
                            r.fail("stage-changes-shape", &src, format!("{}: fix_ident_conflicts changed the signature beyond its parameter names: `{}`", at, tt_string(&after)));
                        }
                        after
                    };
                    let lift = |r: &mut Report, before: &syn::Signature, at: &str| -> (bool, syn::Signature) {
                        let mut after = before.clone();
                        let ok = stages::lift_inner_pat_idents(&mut after);
                        if ok != all_plain(&after) {
                            r.fail("lift-status", &src, format!("{}: lift_inner_pat_idents returned {} for `{}`", at, if ok { "Ok" } else { "NeedsFix" }, tt_string(&after)));
                        }
                        if !same_shape(before, &after) {
                            r.fail("stage-changes-shape", &src, format!("{}: lift_inner_pat_idents changed the signature beyond its parameter names: `{}`", at, tt_string(&after)));
                        }
                        (ok, after)
                    };
                    let auto = |r: &mut Report, before: &syn::Signature, at: &str| -> syn::Signature {
                        let mut after = before.clone();
                        stages::autogenerate_for_non_idents(&mut after);
                        if !all_plain(&after) {
                            r.fail("autogenerate-leaves-pattern", &src, format!("{}: after autogenerate_for_non_idents a pattern is left: `{}`", at, tt_string(&after)));
                        }
                        if !same_shape(before, &after) {
                            r.fail("stage-changes-shape", &src, format!("{}: autogenerate_for_non_idents changed the signature beyond its parameter names: `{}`", at, tt_string(&after)));
                        }
                        after
                    };
                    // every stage directly on the enumerated signature
                    let s1 = fix(r, &s0, "on the input");
                    let _ = lift(r, &s0, "on the input");
                    let _ = auto(r, &s0, "on the input");
                    // and along the real pipeline
                    let (_, s2) = lift(r, &s1, "after fix");
                    let s3 = auto(r, &s2, "after fix, lift");
                    let _ = fix(r, &s2, "after fix, lift");
                    let _ = fix(r, &s3, "after fix, lift, autogenerate");
                });
                }
            }
        }
    }
}
