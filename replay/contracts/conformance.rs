//! Conformance tests for the trusted specification layer (specs/prelude.rs): every assumed
//! `toks()` / `pseq` / constructor fact is checked against the real value built with the real
//! syn / quote / proc-macro2. This is testing of assumptions (reported as facts checked /
//! failed), not proof.
use super::*;
use quote::ToTokens;

#[derive(Debug, Clone, PartialEq, Eq)]
pub enum Tok {
    Ident(String),
    Punct(String),
    Lifetime(String),
    Lit(String),
    Group(Delimiter2, Vec<Tok>),
}

#[derive(Debug, Clone, Copy, PartialEq, Eq)]
pub enum Delimiter2 {
    Paren,
    Bracket,
    Brace,
    NoDelim,
}

/// the abstraction function `tv` of the prelude, made executable: joint punctuation is glued
/// (`::`, `->`), `'` + identifier is one lifetime token, spans are dropped
pub fn tok_abs(t: &TokenStream) -> Vec<Tok> {
    let v: Vec<TokenTree> = t.clone().into_iter().collect();
    let mut out = vec![];
    let mut i = 0;
    while i < v.len() {
        match &v[i] {
            TokenTree::Ident(id) => out.push(Tok::Ident(id.to_string())),
            TokenTree::Literal(l) => out.push(Tok::Lit(l.to_string())),
            TokenTree::Group(g) => {
                let d = match g.delimiter() {
                    Delimiter::Parenthesis => Delimiter2::Paren,
                    Delimiter::Bracket => Delimiter2::Bracket,
                    Delimiter::Brace => Delimiter2::Brace,
                    Delimiter::None => Delimiter2::NoDelim,
                };
                out.push(Tok::Group(d, tok_abs(&g.stream())));
            }
            TokenTree::Punct(p) => {
                if p.as_char() == '\'' {
                    if let Some(TokenTree::Ident(id)) = v.get(i + 1) {
                        out.push(Tok::Lifetime(format!("'{}", id)));
                        i += 2;
                        continue;
                    }
                }
                let mut s = String::new();
                s.push(p.as_char());
                let mut joint = p.spacing() == proc_macro2::Spacing::Joint;
                while joint {
                    match v.get(i + 1) {
                        Some(TokenTree::Punct(q)) if q.as_char() != '\'' => {
                            s.push(q.as_char());
                            joint = q.spacing() == proc_macro2::Spacing::Joint;
                            i += 1;
                        }
                        _ => break,
                    }
                }
                out.push(Tok::Punct(s));
            }
        }
        i += 1;
    }
    out
}

fn of<T: ToTokens>(x: &T) -> Vec<Tok> {
    tok_abs(&x.to_token_stream())
}
fn pu(s: &str) -> Vec<Tok> {
    vec![Tok::Punct(s.into())]
}
fn id(s: &str) -> Vec<Tok> {
    vec![Tok::Ident(s.into())]
}

pub fn run() -> (u64, Vec<String>) {
    let mut n = 0u64;
    let mut bad: Vec<String> = vec![];
    let mut fact = |name: &str, ok: bool| {
        n += 1;
        if !ok {
            bad.push(name.to_string());
        }
    };
    let sp = proc_macro2::Span::call_site();
    macro_rules! punct {
        ($($t:ident => $s:literal),*) => { $(
            fact(concat!("toks(", stringify!($t), "(span))"), of(&syn::token::$t(sp)) == pu($s));
            fact(concat!("toks(", stringify!($t), "::default())"), of(&syn::token::$t::default()) == pu($s));
        )* };
    }
    punct!(Comma => ",", Colon => ":", Plus => "+", Lt => "<", Gt => ">", Eq => "=", Pound => "#", Dot => ".", Semi => ";", And => "&", Question => "?", PathSep => "::", RArrow => "->");
    macro_rules! kw {
        ($($t:ident => $s:literal),*) => { $(
            fact(concat!("toks(", stringify!($t), "(span))"), of(&syn::token::$t(sp)) == id($s));
            fact(concat!("toks(", stringify!($t), "::default())"), of(&syn::token::$t::default()) == id($s));
        )* };
    }
    kw!(Where => "where", SelfType => "Self", SelfValue => "self", Await => "await", Async => "async", Move => "move", Dyn => "dyn", Pub => "pub", Super => "super",
        Unsafe => "unsafe", Const => "const", Fn => "fn", Mut => "mut", Impl => "impl", For => "for", Trait => "trait", Mod => "mod", Auto => "auto", Ref => "ref", In => "in");
    fact("toks(Underscore)", of(&syn::token::Underscore(sp)) == id("_"));
    fact("Ident::new", of(&syn::Ident::new("cfg_attr", sp)) == id("cfg_attr"));
    fact("Ident == Ident (same text)", syn::Ident::new("abc", sp) == syn::Ident::new("abc", proc_macro2::Span::mixed_site()));
    fact("Ident != Ident (different text)", syn::Ident::new("abc", sp) != syn::Ident::new("abd", sp));
    fact("raw Ident differs from plain", syn::Ident::new_raw("type", sp) != syn::Ident::new("typ", sp) && syn::Ident::new_raw("type", sp).to_string() == "r#type");
    fact("Ident == \"text\" compares the text", syn::Ident::new("self", sp) == "self" && !(syn::Ident::new("selfish", sp) == "self") && syn::Ident::new("super", sp) != "self");
    {
        let v: syn::Visibility = syn::parse_str("pub(in super::a)").unwrap();
        if let syn::Visibility::Restricted(r) = &v {
            fact("VisRestricted fields", of(&r.pub_token) == id("pub") && r.in_token.is_some() && r.path.leading_colon.is_none() && r.path.segments.iter().map(|s| s.ident.to_string()).collect::<Vec<_>>() == vec!["super".to_string(), "a".to_string()]);
            fact("toks(PathSegment) of a plain segment", of(&r.path.segments[1]) == id("a"));
        } else {
            fact("pub(in path) parses as Visibility::Restricted", false);
        }
    }
    fact("Ident::clone", of(&syn::Ident::new("x", sp).clone()) == id("x"));
    fact("LitBool::new(false)", of(&syn::LitBool::new(false, sp)) == id("false"));
    fact("LitBool::new(true)", of(&syn::LitBool::new(true, sp)) == id("true"));
    fact("Lifetime::new", of(&syn::Lifetime::new("'static", sp)) == vec![Tok::Lifetime("'static".into())]);
    fact("TokenStream::new", tok_abs(&TokenStream::new()).is_empty());
    // containers
    let x = syn::Ident::new("x", sp);
    fact("toks(&T)", of(&&x) == id("x"));
    fact("toks(Box<T>)", of(&Box::new(x.clone())) == id("x"));
    fact("toks(Some(T))", of(&Some(x.clone())) == id("x"));
    fact("toks(None)", of(&Option::<syn::Ident>::None).is_empty());
    fact("toks(TokenStream)", of(&ts("a :: b")) == vec![Tok::Ident("a".into()), Tok::Punct("::".into()), Tok::Ident("b".into())]);
    // to_tokens appends
    {
        let mut s = ts("a b");
        x.to_tokens(&mut s);
        syn::token::Comma(sp).to_tokens(&mut s);
        fact("to_tokens appends", tok_abs(&s) == vec![Tok::Ident("a".into()), Tok::Ident("b".into()), Tok::Ident("x".into()), Tok::Punct(",".into())]);
    }
    // surround
    {
        let mut s = ts("pre");
        syn::token::Bracket::default().surround(&mut s, |s| {
            x.to_tokens(s);
            syn::token::Comma::default().to_tokens(s);
        });
        fact("Bracket::surround", tok_abs(&s) == vec![Tok::Ident("pre".into()), Tok::Group(Delimiter2::Bracket, vec![Tok::Ident("x".into()), Tok::Punct(",".into())])]);
        let mut s = TokenStream::new();
        syn::token::Paren(sp).surround(&mut s, |_| {});
        fact("Paren::surround (empty)", tok_abs(&s) == vec![Tok::Group(Delimiter2::Paren, vec![])]);
        let mut s = TokenStream::new();
        syn::token::Brace::default().surround(&mut s, |s| x.to_tokens(s));
        fact("Brace::surround", tok_abs(&s) == vec![Tok::Group(Delimiter2::Brace, vec![Tok::Ident("x".into())])]);
    }
    // Punctuated: first / len / is_empty / iter / pairs / into_iter and the token content of a pair
    for src in ["", "A", "A,", "A, B", "A, B,", "A, B, C"] {
        let p: syn::punctuated::Punctuated<syn::Ident, syn::token::Comma> = syn::parse::Parser::parse_str(syn::punctuated::Punctuated::parse_terminated, src).unwrap();
        let vals: Vec<String> = p.iter().map(|i| i.to_string()).collect();
        let want: Vec<String> = src.split(',').map(|s| s.trim().to_string()).filter(|s| !s.is_empty()).collect();
        fact(&format!("Punctuated::iter `{}`", src), vals == want);
        fact(&format!("Punctuated::len `{}`", src), p.len() == want.len());
        fact(&format!("Punctuated::is_empty `{}`", src), p.is_empty() == want.is_empty());
        fact(&format!("Punctuated::first `{}`", src), p.first().map(|i| i.to_string()) == want.first().cloned());
        fact(&format!("&Punctuated::into_iter `{}`", src), (&p).into_iter().map(|i| i.to_string()).collect::<Vec<_>>() == want);
        let trailing = p.trailing_punct();
        let n_ = p.len();
        for (i, pair) in p.pairs().enumerate() {
            fact(&format!("Pairs value `{}`[{}]", src, i), pair.value().to_string() == want[i]);
            let is_punct = matches!(pair, syn::punctuated::Pair::Punctuated(..));
            fact(&format!("Pairs punctuated `{}`[{}]", src, i), is_punct == (i + 1 < n_ || trailing));
            let mut exp = id(&want[i]);
            if is_punct {
                exp.extend(pu(","));
            }
            fact(&format!("toks(Pair) `{}`[{}]", src, i), of(&pair) == exp);
        }
    }
    // Punctuated::push / new / Default, Clone of syntax nodes
    {
        let mut p: syn::punctuated::Punctuated<syn::Ident, syn::token::Comma> = syn::punctuated::Punctuated::new();
        fact("Punctuated::new is empty", p.is_empty());
        let d: syn::punctuated::Punctuated<syn::Ident, syn::token::Comma> = Default::default();
        fact("Punctuated::default is empty", d.is_empty());
        p.push(syn::Ident::new("a", sp));
        p.push(syn::Ident::new("b", sp));
        fact("Punctuated::push appends", p.iter().map(|i| i.to_string()).collect::<Vec<_>>() == vec!["a".to_string(), "b".to_string()]);
        let ty: syn::Type = syn::parse_str("&'a (A, B<C>)").unwrap();
        fact("Type::clone", of(&ty.clone()) == of(&ty));
        let gp: syn::GenericParam = syn::parse_str("T: Clone + 'static").unwrap();
        fact("GenericParam::clone", of(&gp.clone()) == of(&gp));
        let wp: syn::WherePredicate = syn::parse_str("T: Iterator<Item = u8>").unwrap();
        fact("WherePredicate::clone", of(&wp.clone()) == of(&wp));
        let b: syn::TypeParamBound = syn::parse_str("path::Tr<u8>").unwrap();
        fact("TypeParamBound::clone", of(&b.clone()) == of(&b));
        let sig: syn::Signature = syn::parse_str("async fn f<'a, T>(&self, a: &'a T) -> u8 where T: Copy").unwrap();
        fact("Signature::clone", of(&sig.clone()) == of(&sig));
        // the whole-list token content of a Punctuated (uninterpreted in the prelude) is at least consistent with its pairs
        let mut via_pairs = TokenStream::new();
        for pair in p.pairs() {
            pair.to_tokens(&mut via_pairs);
        }
        fact("toks(Punctuated) == concatenation of its pairs", tok_abs(&via_pairs) == of(&p));
    }
    // visibility
    fact("toks(Visibility::Inherited)", of(&syn::Visibility::Inherited).is_empty());
    fact("toks(Visibility::Public)", of(&syn::parse_str::<syn::Visibility>("pub").unwrap()) == id("pub"));
    // errors
    fact("Error::new message", syn::Error::new(sp, "Unsupported option").to_string() == "Unsupported option");
    fact("Box::as_ref", *Box::new(3u8).as_ref() == 3u8);
    (n, bad)
}
