//! Conformance tests for the trusted specification layer (specs/prelude.rs): every assumed
//! `toks()` fact is checked against the real value built with the real crates.
use super::*;

pub fn run() -> (u64, Vec<String>) { (0, vec![]) }
